"""C06 — JSON save/load reproduces the tree exactly.

(S) the statement itself on the implementation: random trees built by HISTORIES of
    attach / declare / remove (so realistic nsmap sharing and key orders arise) ->
    to_json -> from_json -> deep snapshot compare, text identity of the re-serialisation,
    parent links; the legacy codec on the fields it carries; legacy -> to_20210209 -> load.
(B) model vs implementation, evaluated inside Coq: the model's serialize / load /
    objectify / legacy_load / upgrade on the same trees and documents (the JSON document
    is transferred as a [json] value literal with ordered keys), plus malformed documents
    (exception CLASS compared with the model's Crash kind).
(A) the positional slot layout the model uses is compared with the literals in the Python
    AST of _from_dict / _serialize / mp_io.from_json / objectify / to_20210209.
The oracle pair json.dumps / json.loads is validated on every generated document."""
import ast
import copy
import json
import os

from harness import common
from harness import nodelib as NL
from harness.common import cstr, clist

HEADER = "From MP Require Import Common.Base Common.Tree Model.Json Model.JsonRun.\n"

# ------------------------------------------------------------------ text pools
POOL = ["a", "b", "Z", "0", " ", "\t", "\n", "\r", "\x00", "\x1f", "\x7f", '"', "'", "\\", "/", "<", ">", "&", "&amp;",
        "é", " ", " ", "中", "﻿", "￿", "\U0001F600", "\U00010000", "\U0010FFFF", "{", "}", "[", "]",
        ":", ",", "\\u0041", "\\n", "null", "true"]
INDENTS = (0, 1, 2, 4, 9)
SURR = ["\ud800", "\udfff", "\udc00\ud800"]
NAMES = ["eml", "dataset", "title", "para", "x", "id", "children", "nsmap", "", "élément", "a b", "\U0001F600"]
PREFIXES = ["a", "b", "c", "eml", "xsi", "stmml", "", "é"]
URIS = ["u1", "u2", "u3", "https://eml.ecoinformatics.org/eml-2.2.0", "http://www.w3.org/2001/XMLSchema-instance", "", "中/\"q\""]
KEYS = ["id", "system", "scope", "xml:lang", "k", "", "é", "a\"b", "\\",
        # odd but legal key strings: Clark form {URI}local (URI bound in the maps the generators use, the XML namespace,
        # an unbound one), keys with ':' '{' '}'
        "{u1}x", "{u2}y", "{}z", "{http://www.w3.org/XML/1998/namespace}lang", "{unbound}y", "{https://eml.ecoinformatics.org/eml-2.2.0}id",
        "a:b", ":", "{", "}", "{u1", "u1}x", "p:{u1}x"]


def fresh(x):
    """a NEW str object with the same characters (never an interned literal / shared constant)"""
    return None if x is None else "".join(list(x)) if len(x) != 1 else (x + "_")[:1]


def rtext(rng, surr=False, maxlen=6):
    n = rng.choice([0, 1, 1, 2, 3, maxlen])
    parts = [rng.choice(POOL) for _ in range(n)]
    if surr and rng.random() < 0.5:
        parts.insert(rng.randrange(len(parts) + 1), rng.choice(SURR))
    return fresh("".join(parts))


def ropt(rng, surr=False, p_none=0.4):
    return None if rng.random() < p_none else rtext(rng, surr)


def rdict(rng, surr=False):
    d = []
    for _ in range(rng.choice([0, 0, 1, 2, 3])):
        k = fresh(rng.choice(KEYS)) if rng.random() < 0.7 else rtext(rng, surr)
        if k not in [x for x, _ in d]:
            d.append((k, rtext(rng, surr)))
    return d


# ------------------------------------------------------------------ trees by histories
def gen_history_tree(rng, max_nodes, surr=False, closed_bias=0.85):
    """Build one implementation tree through the Node API. Returns (root, history, nodes)."""
    from metapype.model.node import Node
    n = rng.randint(1, max_nodes)
    # shape: parent of node k is an earlier node; depth <= 5, fan-out <= 4
    parent = [None]
    depth = [1]
    fan = [0]
    for k in range(1, n):
        cands = [p for p in range(k) if depth[p] < 5 and fan[p] < 4]
        p = rng.choice(cands)
        parent.append(p)
        depth.append(depth[p] + 1)
        fan.append(0)
        fan[p] += 1
    nodes = []
    empty_id_at = rng.randrange(n) if rng.random() < 0.1 else -1
    for k in range(n):
        nid = ("n%d" % k) + (rtext(rng, surr, 2) if rng.random() < 0.3 else "")
        if k == empty_id_at:
            nid = ""                      # a falsy but legal id
        nd = Node(fresh(rng.choice(NAMES)) if rng.random() < 0.8 else rtext(rng, surr), id=fresh(nid), content=ropt(rng, surr))
        t = ropt(rng, surr, 0.6)
        if t is not None:
            nd.tail = t
        p = None if rng.random() < 0.6 else fresh(rng.choice(PREFIXES))
        if p is not None:
            nd.prefix = p
        for a, v in rdict(rng, surr):
            nd.add_attribute(a, v)
        for a, v in rdict(rng, surr):
            nd.add_extras(a, v)
        nodes.append(nd)
    hist = []
    attach = list(range(1, n))
    rng.shuffle(attach)
    nops = rng.choice([0, 1, 2, 4, 8]) if n > 1 else rng.choice([0, 1, 3])
    ops = ["attach"] * len(attach) + ["ns"] * nops
    rng.shuffle(ops)
    for op in ops:
        if op == "attach":
            k = attach.pop()
            idx = None
            if rng.random() < 0.3:
                idx = rng.randint(0, len(nodes[parent[k]].children))
            nodes[parent[k]].add_child(nodes[k], index=idx)
            hist.append(["attach", k, parent[k], idx])
        else:
            k = rng.randrange(n)
            pfx = fresh(rng.choice(PREFIXES[:5]) if rng.random() < 0.85 else rng.choice(PREFIXES))
            how = rng.random()
            if how < 0.2:
                # a legal direct edit through the exposed property: node.nsmap[prefix] = uri on a private copy, on the
                # node and everything below it (keeps the precondition); small pool => alias prefixes (two prefixes,
                # one URI) and "" URIs are common
                uri = fresh(rng.choice(["u1", "u1", "u2", ""]))
                if rng.random() < 0.04:
                    pfx = None            # a default-namespace binding, as from_xml stores it
                todo = [nodes[k]]
                while todo:
                    x = todo.pop()
                    x.nsmap = dict(x.nsmap)
                    x.nsmap[pfx] = uri
                    todo.extend(x.children)
                hist.append(["nsmap[p]=u below", k, pfx, uri])
            elif how < 0.75:
                uri = fresh(rng.choice(URIS[:3]) if rng.random() < 0.7 else rng.choice(URIS))
                nodes[k].add_namespace(pfx, uri)
                hist.append(["declare", k, pfx, uri])
            else:
                par = nodes[k].parent
                if par is not None and pfx in par.nsmap and rng.random() < closed_bias:
                    # keep the precondition: remove at the top of the component instead
                    while nodes[k].parent is not None:
                        k = parent[k]
                nodes[k].remove_namespace(pfx)
                hist.append(["remove", k, pfx])
    for nd in nodes:
        if nd.nsmap and rng.random() < 0.3:
            uri = rng.choice(list(nd.nsmap.values()))
            key = fresh("{" + uri + "}" + rng.choice(["x", "lang", ""]))
            (nd.add_extras if rng.random() < 0.7 else nd.add_attribute)(key, rtext(rng, surr))
            hist.append(["clark-key", nd.id, key])
    if closed_bias == 0.0:
        # leave the precondition on purpose: a child drops one of its parent's prefixes, and
        # sometimes a deeper node binds it again to something else
        cands = [k for k in range(1, n) if nodes[k].parent is not None and nodes[k].parent.nsmap]
        if cands:
            k = rng.choice(cands)
            pfx = rng.choice(list(nodes[k].parent.nsmap))
            nodes[k].remove_namespace(pfx)
            hist.append(["remove", k, pfx])
            below = [j for j in range(1, n) if parent[j] == k]
            if below and rng.random() < 0.5:
                j = rng.choice(below)
                nodes[j].add_namespace(pfx, "other")
                hist.append(["declare", j, pfx, "other"])
    return nodes[0], hist, nodes


def ns_closed(sn):
    """the property's precondition, from its text: every prefix of a node's namespace map is
    also a prefix of each child's map"""
    pk = [k for k, _ in sn["nsmap"]]
    for c in sn["kids"]:
        ck = [k for k, _ in c["nsmap"]]
        if any(k not in ck for k in pk):
            return False
        if not ns_closed(c):
            return False
    return True


def has_none_key(sn):
    """a default-namespace binding (what from_xml stores for xmlns="..."): the prefix is None, not a str"""
    return any(k is None for k, _ in sn["nsmap"]) or any(has_none_key(c) for c in sn["kids"])


def none_as_null(sn):
    d = dict(sn)
    d["nsmap"] = [["null" if k is None else k, v] for k, v in sn["nsmap"]]
    d["kids"] = [none_as_null(c) for c in sn["kids"]]
    return d


def rt_key(expected, got):
    """the stable key of a round-trip difference: the known shape 'default-namespace prefix None comes back as the
    string "null"' has its own key, everything else is C06:roundtrip"""
    if has_none_key(expected) and got is not None and none_as_null(expected) == got:
        return "C06:default-namespace-none-key"
    return "C06:roundtrip"


def count_nodes(sn):
    return 1 + sum(count_nodes(k) for k in sn["kids"])


def height(sn):
    return 1 + max([height(k) for k in sn["kids"]] + [0])


def has_surrogate(text):
    return any(0xD800 <= ord(c) <= 0xDFFF for c in text)


def legacy_view(sn):
    """the fields the legacy codec carries, from the property text"""
    return {"id": sn["id"], "name": sn["name"], "content": sn["content"], "tail": None, "prefix": None,
            "attrs": sn["attrs"], "extras": [], "nsmap": [], "kids": [legacy_view(k) for k in sn["kids"]]}


def all_nodes(node):
    out = [node]
    for c in node.children:
        out.extend(all_nodes(c))
    return out


def parents_ok(node, parent=None):
    if node.parent is not parent:
        return False
    return all(parents_ok(c, node) for c in node.children)


# ------------------------------------------------------------------ JSON <-> Coq literal
class Obj(list):
    pass


def parse_ordered(text):
    return json.loads(text, object_pairs_hook=Obj)


def to_ordered(v):
    """a Python value as produced by _serialize (dicts in insertion order) -> ordered form"""
    if isinstance(v, dict):
        return Obj((k, to_ordered(x)) for k, x in v.items())
    if isinstance(v, (list, tuple)):
        return [to_ordered(x) for x in v]
    return v


class NotRepresentable(Exception):
    pass


def coq_json(v):
    if v is None:
        return "JNull"
    if v is True:
        return "(JBool true)"
    if v is False:
        return "(JBool false)"
    if isinstance(v, int):
        return f"(JNum ({v})%Z)"
    if isinstance(v, str):
        return f"(JStr {cstr(v)})"
    if isinstance(v, Obj):
        return "(JObj " + clist("(" + cstr(k) + ", " + coq_json(x) + ")" for k, x in v) + ")"
    if isinstance(v, list):
        return "(JArr " + clist(coq_json(x) for x in v) + ")"
    raise NotRepresentable(repr(type(v)))


def coq_result_tree(r):
    kind, val = r
    if kind == "ok":
        return "(Ok " + NL.coq_ftree(val) + ")"
    return "(Crash " + cstr(val) + ")"


def coq_result_json(r):
    kind, val = r
    if kind == "ok":
        return "(Ok " + coq_json(val) + ")"
    return "(Crash " + cstr(val) + ")"


def snapshot_ok(node):
    """snapshot, or None when a field holds something the value model cannot carry
    (non-str ids / prefixes / dict values) — such documents are outside the model"""
    def ok(sn):
        for f in ("id", "name"):
            if not isinstance(sn[f], str):
                return False
        for f in ("content", "tail", "prefix"):
            if sn[f] is not None and not isinstance(sn[f], str):
                return False
        for f in ("attrs", "extras", "nsmap"):
            for k, v in sn[f]:
                if not isinstance(k, str) or not isinstance(v, str):
                    return False
        return all(ok(k) for k in sn["kids"])
    sn = NL.snapshot(node)
    return sn if ok(sn) else None


class ImplTimeout(BaseException):
    pass


def _alarm(signum, frame):
    raise ImplTimeout()


def run_impl(fn, limit=20):
    """('ok', value) or ('exc', class name); a call that does not come back within `limit` seconds is reported as
    ('exc', 'DidNotTerminate') instead of hanging the check"""
    import signal
    old = signal.signal(signal.SIGALRM, _alarm)
    signal.alarm(limit)
    try:
        return ("ok", fn())
    except ImplTimeout:
        return ("exc", "DidNotTerminate")
    except RecursionError:
        raise
    except Exception as e:  # noqa: the class IS the observable
        return ("exc", type(e).__name__)
    finally:
        signal.alarm(0)
        signal.signal(signal.SIGALRM, old)


# ------------------------------------------------------------------ the converter, without import side effects
def load_converter():
    """utils/convert.py configures logging to a file at import time; take the function only."""
    path = os.path.join(common.REPO, "utils", "convert.py")
    src = open(path, encoding="utf-8").read()
    tree = ast.parse(src)
    for n in tree.body:
        if isinstance(n, ast.FunctionDef) and n.name == "to_20210209":
            mod = ast.Module(body=[n], type_ignores=[])
            ns = {}
            exec(compile(mod, path, "exec"), ns)
            return ns["to_20210209"], n
    raise RuntimeError("to_20210209 not found in utils/convert.py")


# ------------------------------------------------------------------ (A) slot layout from the AST
def _func(path, name):
    tree = ast.parse(open(path, encoding="utf-8").read())
    for n in ast.walk(tree):
        if isinstance(n, ast.FunctionDef) and n.name == name:
            return n
    raise RuntimeError(f"{name} not found in {path}")


def slots_read(fn):
    """(index, key) of every  body[<int>]["<key>"]  in source order"""
    out = []
    for n in ast.walk(fn):
        if (isinstance(n, ast.Subscript) and isinstance(n.slice, ast.Constant) and isinstance(n.slice.value, str)
                and isinstance(n.value, ast.Subscript) and isinstance(n.value.slice, ast.Constant)
                and isinstance(n.value.slice.value, int)):
            out.append((n.lineno, n.col_offset, n.value.slice.value, n.slice.value))
    out.sort()
    return [(i, k) for _, _, i, k in out]


def slots_written(fn):
    """keys of every  .append({"<key>": ...})  in source order; position = order"""
    out = []
    for n in ast.walk(fn):
        if (isinstance(n, ast.Call) and isinstance(n.func, ast.Attribute) and n.func.attr == "append" and n.args
                and isinstance(n.args[0], ast.Dict) and len(n.args[0].keys) == 1 and isinstance(n.args[0].keys[0], ast.Constant)):
            out.append((n.lineno, n.col_offset, n.args[0].keys[0].value))
    out.sort()
    return [(i, k) for i, (_, _, k) in enumerate(out)]


def inserts(fn):
    out = []
    for n in ast.walk(fn):
        if (isinstance(n, ast.Call) and isinstance(n.func, ast.Attribute) and n.func.attr == "insert" and len(n.args) == 2
                and isinstance(n.args[0], ast.Constant) and isinstance(n.args[1], ast.Dict) and len(n.args[1].keys) == 1):
            out.append((n.lineno, n.col_offset, n.args[0].value, n.args[1].keys[0].value))
    out.sort()
    return [(i, k) for _, _, i, k in out]


def check_layout(ctx, conv_fn_ast):
    src = os.path.join(common.REPO, "src", "metapype", "model")
    got = {
        "load_slots": slots_read(_func(os.path.join(src, "metapype_io.py"), "_from_dict")),
        "ser_slots": slots_written(_func(os.path.join(src, "metapype_io.py"), "_serialize")),
        "legacy_slots": slots_read(_func(os.path.join(src, "mp_io.py"), "from_json")),
        "obj_slots": slots_written(_func(os.path.join(src, "mp_io.py"), "objectify")),
        "upgrade_inserts": inserts(conv_fn_ast),
        "upgrade_reads": slots_read(conv_fn_ast),
    }
    def lit(l):
        return clist(f"(({i})%Z, {cstr(k)})" for i, k in l)
    eq = "list_eqb (fun a b => Z.eqb (fst a) (fst b) && pystr_eqb (snd a) (snd b))"
    text = HEADER + "".join(
        f"Eval vm_compute in {eq} {model} {lit(got[name])}.\n"
        for name, model in (("load_slots", "load_slots"), ("ser_slots", "load_slots"), ("legacy_slots", "legacy_slots"),
                            ("obj_slots", "legacy_slots"), ("upgrade_inserts", "upgrade_inserts"),
                            ("upgrade_reads", "[(7%Z, K_children)]")))
    rc, out = common.coq_eval("C06_layout", text)
    vals = common.parse_eval_values(out) if rc == 0 else []
    names = ["_from_dict reads", "_serialize writes", "mp_io.from_json reads", "objectify writes", "to_20210209 inserts", "to_20210209 reads"]
    if rc != 0 or len(vals) != 6:
        ctx.fail("tie:layout", "slot layout comparison did not evaluate", {"kind": "broken-correspondence", "output": out[-800:]}, concrete=False)
        return
    for nm, v, key in zip(names, vals, got):
        ctx.case(("layout", nm))
        if v != "true":
            ctx.fail("tie:layout:" + key, f"positional layout in the source differs from the model's: {nm} = {got[key]}",
                     {"kind": "broken-correspondence", "what": nm, "source_layout": got[key]}, concrete=False)
    ctx.extra["layout_from_ast"] = {k: [list(x) for x in v] for k, v in got.items()}


# ------------------------------------------------------------------ (S) the statement on the implementation
def statement_checks(ctx, root, hist, to_20210209, label):
    """Returns (snapshot, closed, record) ; reports concrete violations."""
    from metapype.model import metapype_io, mp_io
    sn = NL.snapshot(root)
    closed = ns_closed(sn)
    rec = {"snapshot": sn, "history": hist}
    # ---- current codec
    ser = metapype_io._serialize(root)
    text = metapype_io.to_json(root)
    rec["text"] = text
    surr = has_surrogate(text) or has_surrogate(json.dumps(sn, ensure_ascii=False))
    # oracle pair: loads(dumps(v)) == v with key order
    ordered = to_ordered(ser)
    back = parse_ordered(text)
    if (back != ordered and not has_none_key(sn)) or json.dumps(json.loads(text)) != text:
        ctx.fail("oracle:json-dumps-loads", "json.dumps/json.loads are not inverse on a generated document",
                 {"kind": "oracle", "text": text}, concrete=False)
    re = run_impl(lambda: metapype_io.from_json(text))
    # for the value model a default-namespace key is what json.dumps writes for it (the string "null")
    rec["ordered"] = back if has_none_key(sn) else ordered
    if re[0] == "ok":
        rsn = NL.snapshot(re[1])
        rec["loaded"] = ("ok", rsn)
        rtext2 = metapype_io.to_json(re[1])
    else:
        rec["loaded"] = re
        rsn, rtext2 = None, None
    if closed:
        where = "C06:roundtrip"
        if re[0] != "ok":
            ctx.fail(where, f"from_json(to_json(t)) raised {re[1]}", {"kind": "impl-vs-statement", "tree": sn, "history": hist, "json": text})
        else:
            if rsn != sn:
                ctx.fail(rt_key(sn, rsn), "from_json(to_json(t)) is not t: " + first_diff(sn, rsn),
                         {"kind": "impl-vs-statement", "tree": sn, "history": hist, "json": text, "reloaded": rsn})
            if rtext2 != text:
                ctx.fail("C06:reserialize", "re-serialising the reloaded tree gives a different JSON text",
                         {"kind": "impl-vs-statement", "tree": sn, "history": hist, "json": text, "json_again": rtext2})
            if not parents_ok(re[1]):
                ctx.fail("C06:parents", "parent links of the reloaded tree are not set to the containing node",
                         {"kind": "impl-vs-statement", "tree": sn, "history": hist, "json": text})
    # ---- every output mode of to_json (optional parameter indent), compared ORDER-sensitively
    for ind in INDENTS:
        ti = metapype_io.to_json(root, indent=ind)
        ctx.count("indent modes")
        if parse_ordered(ti) != ordered and not has_none_key(sn):
            ctx.fail("corr:to_json-indent", f"to_json(indent={ind}) is not the document _serialize builds (as an ordered value)",
                     {"kind": "broken-correspondence", "theorem": "C06 (serialize vs to_json, indent mode)", "tree": sn, "history": hist,
                      "indent": ind, "json": ti}, concrete=False)
        ri = run_impl(lambda: metapype_io.from_json(ti))
        if not closed:
            continue
        if ri[0] != "ok":
            ctx.fail("C06:roundtrip", f"from_json(to_json(t, indent={ind})) raised {ri[1]}",
                     {"kind": "impl-vs-statement", "tree": sn, "history": hist, "indent": ind, "json": ti})
            continue
        isn = NL.snapshot(ri[1])
        if isn != sn:
            ctx.fail(rt_key(sn, isn), f"from_json(to_json(t, indent={ind})) is not t: " + first_diff(sn, isn),
                     {"kind": "impl-vs-statement", "tree": sn, "history": hist, "indent": ind, "json": ti, "reloaded": isn})
        if metapype_io.to_json(ri[1], indent=ind) != ti:
            ctx.fail("C06:reserialize", f"re-serialising (indent={ind}) the tree reloaded from indent={ind} text gives a different text",
                     {"kind": "impl-vs-statement", "tree": sn, "history": hist, "indent": ind, "json": ti})
        if metapype_io.to_json(ri[1]) != text:
            ctx.fail("C06:reserialize", f"compact text of the tree reloaded from indent={ind} text differs from the original's compact text",
                     {"kind": "impl-vs-statement", "tree": sn, "history": hist, "indent": ind, "json": ti, "compact": text})
        if not parents_ok(ri[1]):
            ctx.fail("C06:parents", "parent links of the reloaded tree are not set to the containing node",
                     {"kind": "impl-vs-statement", "tree": sn, "history": hist, "indent": ind, "json": ti})
    # ---- statelessness of the codec (an assumption of the value model): same call, same answer
    if metapype_io.to_json(root) != text or to_ordered(metapype_io._serialize(root)) != ordered or NL.snapshot(root) != sn:
        ctx.fail("C06:stateless", "to_json of the same unchanged tree gives a different text the second time",
                 {"kind": "impl-vs-statement", "tree": sn, "history": hist, "json": text})
    if re[0] == "ok":
        # history: save, load, EDIT the loaded tree in place, load the same text again
        first = re[1]
        fnodes = all_nodes(first)
        victim = fnodes[len(text) % len(fnodes)]
        victim.content = "edited after load"
        victim.add_attribute("zz-after-load", "1")
        victim.nsmap = dict(victim.nsmap)
        re2 = run_impl(lambda: metapype_io.from_json(fresh(text)))
        re3 = run_impl(lambda: metapype_io.from_json(text))
        for again in (re2, re3):
            if again[0] != "ok" or NL.snapshot(again[1]) != rsn:
                ctx.fail("C06:roundtrip" if closed else "C06:stateless",
                         "loading the same JSON text a second time (after the first loaded tree was edited in place) does not give the saved tree: "
                         + (again[1] if again[0] != "ok" else first_diff(rsn, NL.snapshot(again[1]))),
                         {"kind": "impl-vs-statement", "tree": sn, "history": hist + [["load"], ["edit loaded tree", victim.id], ["load again"]], "json": text})
            elif {id(x) for x in all_nodes(again[1])} & ({id(x) for x in fnodes} | {id(x) for x in all_nodes(root)}):
                ctx.fail("C06:distinct", "a second load of the same JSON text shares node objects with an earlier tree",
                         {"kind": "impl-vs-statement", "tree": sn, "history": hist + [["load"], ["load again"]], "json": text})
            elif not parents_ok(again[1]):
                ctx.fail("C06:parents", "parent links of a second load are not set to the containing node",
                         {"kind": "impl-vs-statement", "tree": sn, "history": hist, "json": text})
    # ---- legacy codec
    ltext = mp_io.to_json(root)
    lobj = mp_io.objectify(root)
    rec["lordered"] = to_ordered(lobj)
    if parse_ordered(ltext) != rec["lordered"]:
        ctx.fail("oracle:json-dumps-loads", "json.dumps/json.loads are not inverse on a generated legacy document",
                 {"kind": "oracle", "text": ltext}, concrete=False)
    lv = legacy_view(sn)
    lre = run_impl(lambda: mp_io.from_json(json.loads(ltext)))
    if lre[0] == "ok":
        lsn = NL.snapshot(lre[1])
        rec["lloaded"] = ("ok", lsn)
        if lsn != lv:
            ctx.fail("C06:legacy", "legacy from_json(to_json(t)) differs on a field the legacy codec carries: " + first_diff(lv, lsn),
                     {"kind": "impl-vs-statement", "tree": sn, "legacy_json": ltext, "reloaded": lsn, "expected": lv})
        if not parents_ok(lre[1]):
            ctx.fail("C06:legacy-parents", "parent links of the legacy-reloaded tree are not set",
                     {"kind": "impl-vs-statement", "tree": sn, "legacy_json": ltext})
        if mp_io.to_json(lre[1]) != ltext:
            ctx.fail("C06:legacy-reserialize", "legacy re-serialisation differs", {"kind": "impl-vs-statement", "tree": sn, "legacy_json": ltext})
        lre[1].content = "edited after load"
        lre2 = run_impl(lambda: mp_io.from_json(json.loads(ltext)))
        if lre2[0] != "ok" or NL.snapshot(lre2[1]) != lv or lre2[1] is lre[1]:
            ctx.fail("C06:legacy", "loading the same legacy document again (after the first loaded tree was edited) does not give the saved tree",
                     {"kind": "impl-vs-statement", "tree": sn, "legacy_json": ltext, "expected": lv})
    else:
        rec["lloaded"] = lre
        ctx.fail("C06:legacy", f"legacy from_json(to_json(t)) raised {lre[1]}", {"kind": "impl-vs-statement", "tree": sn, "legacy_json": ltext})
    # ---- upgrade
    m = json.loads(ltext)
    ure = run_impl(lambda: to_20210209(m))
    if ure[0] == "ok":
        rec["upgraded"] = ("ok", to_ordered(m))
        utext = json.dumps(m)
        ul = run_impl(lambda: metapype_io.from_json(utext))
        if ul[0] == "ok":
            usn = NL.snapshot(ul[1])
            rec["uloaded"] = ("ok", usn)
            if usn != lv:
                ctx.fail("C06:upgrade", "legacy document upgraded by to_20210209 does not load as the same tree with empty namespace data: " + first_diff(lv, usn),
                         {"kind": "impl-vs-statement", "tree": sn, "legacy_json": ltext, "upgraded_json": utext, "reloaded": usn, "expected": lv})
            if not parents_ok(ul[1]):
                ctx.fail("C06:upgrade-parents", "parent links after loading an upgraded document are not set",
                         {"kind": "impl-vs-statement", "tree": sn, "upgraded_json": utext})
        else:
            rec["uloaded"] = ul
            ctx.fail("C06:upgrade", f"loading the upgraded legacy document raised {ul[1]}",
                     {"kind": "impl-vs-statement", "tree": sn, "legacy_json": ltext, "upgraded_json": utext})
    else:
        rec["upgraded"] = ure
        rec["uloaded"] = ("exc", "n/a")
        ctx.fail("C06:upgrade", f"to_20210209 raised {ure[1]} on a legacy document", {"kind": "impl-vs-statement", "tree": sn, "legacy_json": ltext})
    # ---- the same objects after an in-place edit vs a freshly built identical tree (no memoisation on identity)
    nodes_now = []

    def coll(n):
        nodes_now.append(n)
        for c in n.children:
            coll(c)
    coll(root)
    tgt = nodes_now[len(text) % len(nodes_now)]
    tgt.add_attribute("zz-edit", "1")
    tgt.content = "edited"
    tgt.tail = None if tgt.tail is not None else "t"
    tgt.add_extras("zz:x", "y")
    esn = NL.snapshot(root)
    etext = metapype_io.to_json(root)
    eltext = mp_io.to_json(root)
    rebuilt = NL.build(esn, attach=False)
    if etext != metapype_io.to_json(rebuilt) or eltext != mp_io.to_json(rebuilt):
        ctx.fail("C06:stateless", "after an in-place edit, to_json of the edited tree differs from to_json of a freshly built identical tree",
                 {"kind": "impl-vs-statement", "tree": sn, "history": hist, "edited_node": tgt.id, "edited_tree": esn, "json": etext})
    if ns_closed(esn):
        er = run_impl(lambda: metapype_io.from_json(etext))
        if er[0] != "ok" or NL.snapshot(er[1]) != esn:
            ctx.fail(rt_key(esn, NL.snapshot(er[1]) if er[0] == "ok" else None), "after an in-place edit, from_json(to_json(t)) is not t",
                     {"kind": "impl-vs-statement", "tree": esn, "history": hist + [["edit", tgt.id]], "json": etext})
    ctx.case((label, text), nontrivial=count_nodes(sn) > 1 or bool(sn["nsmap"]))
    ctx.count("closed" if closed else "ns-violating (outside the claim)")
    ctx.count("nodes<=%d" % (1 if count_nodes(sn) == 1 else 5 if count_nodes(sn) <= 5 else 20 if count_nodes(sn) <= 20 else 400))
    ctx.count("height=%d" % height(sn))
    if surr:
        ctx.count("with lone surrogates")
    if any(n["nsmap"] for n in walk(sn)):
        ctx.count("with namespaces")
    if not closed and rsn is not None and rsn == sn:
        ctx.count("ns-violating but reproduced anyway")
    return sn, closed, rec


def walk(sn):
    yield sn
    for k in sn["kids"]:
        yield from walk(k)


def first_diff(a, b, path="root"):
    for f in ("id", "name", "content", "tail", "prefix", "attrs", "extras", "nsmap"):
        if a[f] != b[f]:
            return f"{path}.{f}: {a[f]!r} -> {b[f]!r}"
    if len(a["kids"]) != len(b["kids"]):
        return f"{path}: {len(a['kids'])} children -> {len(b['kids'])}"
    for i, (x, y) in enumerate(zip(a["kids"], b["kids"])):
        d = first_diff(x, y, f"{path}/{i}")
        if d:
            return d
    return ""


# ------------------------------------------------------------------ malformed documents
def mutate_doc(rng, doc):
    """doc: plain dict/list document (as json.loads returns). Returns a mutated deep copy + description."""
    d = copy.deepcopy(doc)
    # collect paths to node objects
    nodes = []

    def coll(o):
        if isinstance(o, dict) and o:
            nodes.append(o)
            for body in o.values():
                if isinstance(body, list) and body and isinstance(body[-1], dict):
                    kids = body[-1].get("children")
                    if isinstance(kids, list):
                        for k in kids:
                            coll(k)
    coll(d)
    if not nodes:
        return d, "nothing-left"
    o = rng.choice(nodes)
    name = list(o.keys())[-1]
    body = o[name]
    if not isinstance(body, list):
        o[name] = rng.choice([None, [], [{"id": "q"}]])
        return d, "body-type-again"
    kind = rng.choice(["drop-slot", "rename-key", "retype-slot", "empty-object", "extra-key-last", "extra-key-first", "swap-slots",
                       "body-type", "value-type", "truncate", "children-type", "child-type", "slot-extra-key", "dup-slot"])
    if kind == "drop-slot" and body:
        del body[rng.randrange(len(body))]
    elif kind == "rename-key" and body:
        i = rng.randrange(len(body))
        if isinstance(body[i], dict) and body[i]:
            k = list(body[i])[0]
            body[i] = {k + "_": body[i][k]}
    elif kind == "retype-slot" and body:
        body[rng.randrange(len(body))] = rng.choice([None, [], "id", 5, True, {}, ["x"]])
    elif kind == "empty-object":
        o.clear()
    elif kind == "extra-key-last":
        o["zz"] = rng.choice([[], None, "s", {}, [{"id": "q"}], copy.deepcopy(body)])
    elif kind == "extra-key-first":
        items = list(o.items())
        o.clear()
        o["zz"] = rng.choice([[], None, "s"])
        for k, v in items:
            o[k] = v
    elif kind == "swap-slots" and len(body) > 1:
        i, j = rng.sample(range(len(body)), 2)
        body[i], body[j] = body[j], body[i]
    elif kind == "body-type":
        o[name] = rng.choice([None, "abcdefgh", "", 7, False, {}, {"0": {"id": "x"}}, []])
    elif kind == "value-type" and body:
        i = rng.randrange(len(body))
        if isinstance(body[i], dict) and body[i]:
            k = list(body[i])[0]
            body[i][k] = rng.choice([None, "txt", "", 12, -3, True, False, [], {}, {"p": "q"}, {"p": 1}, {"p": None}, ["a"], 0])
    elif kind == "truncate" and body:
        del body[rng.randrange(len(body)):]
    elif kind == "children-type" and body and isinstance(body[-1], dict) and "children" in body[-1]:
        body[-1]["children"] = rng.choice([None, "", "ab", {}, {"k": 1}, 3, True, [None], ["s"], [[]], [{}], [5]])
    elif kind == "child-type" and body and isinstance(body[-1], dict) and isinstance(body[-1].get("children"), list):
        body[-1]["children"].insert(rng.randint(0, len(body[-1]["children"])), rng.choice([None, "s", "", [], {}, 4, {"x": None}, {"x": []}]))
    elif kind == "slot-extra-key" and body:
        i = rng.randrange(len(body))
        if isinstance(body[i], dict):
            body[i]["zz"] = 1
    elif kind == "dup-slot" and body:
        i = rng.randrange(len(body))
        body.insert(i, copy.deepcopy(body[i]))
    return d, kind


def doc_cases(ctx, rng, recs, to_20210209, n):
    """n mutated documents per codec; returns list of (coq term, meta)"""
    from metapype.model import metapype_io, mp_io
    out = []
    for _ in range(n):
        rec = rng.choice(recs)
        which = rng.choice([0, 0, 1, 2])
        base = json.loads(rec["text"]) if which == 0 else json.loads(json.dumps(to_plain(rec["lordered"])))
        doc, kind = mutate_doc(rng, base)
        if rng.random() < 0.3:
            doc, kind2 = mutate_doc(rng, doc)
            kind += "+" + kind2
        text = json.dumps(doc)
        try:
            jlit = coq_json(parse_ordered(text))
        except NotRepresentable:
            continue
        NL.reset_store()
        want_t, want_j = '(Crash (s "n/a"))', '(Crash (s "n/a"))'
        if which == 0:
            r = run_impl(lambda: metapype_io.from_json(text))
        elif which == 1:
            r = run_impl(lambda: mp_io.from_json(json.loads(text)))
        else:
            m = json.loads(text)
            r = run_impl(lambda: to_20210209(m))
            if r[0] == "ok":
                r = ("ok", to_ordered(m))
        representable = True
        if r[0] == "ok" and which in (0, 1):
            sn = snapshot_ok(r[1])
            if sn is None:
                representable = False
            else:
                want_t = coq_result_tree(("ok", sn))
                statement_checks(ctx, r[1], [["loaded from a mutated document", text[:200]]], to_20210209, "doc")
                ctx.count("statement on a tree loaded from a mutated document")
        elif r[0] == "ok":
            want_j = coq_result_json(r)
        elif which in (0, 1):
            want_t = coq_result_tree(r)
        else:
            want_j = coq_result_json(r)
        term = f"{{| d_which := {which}; d_j := {jlit}; d_want_t := {want_t}; d_want_j := {want_j} |}}"
        out.append((term, {"which": ["metapype_io.from_json", "mp_io.from_json", "to_20210209"][which], "mutation": kind, "document": text,
                           "implementation": (r[0], r[1] if r[0] == "exc" else "(value)"), "representable": representable}))
    return out


def to_plain(v):
    if isinstance(v, Obj):
        return {k: to_plain(x) for k, x in v}
    if isinstance(v, list):
        return [to_plain(x) for x in v]
    return v


# ------------------------------------------------------------------ Coq case terms
def coq_case(rec):
    def rt(r):
        return coq_result_tree(r) if r[0] == "ok" else "(Crash " + cstr(r[1]) + ")"
    up = rec["upgraded"]
    return ("{| c_t := " + NL.coq_ftree(none_as_null(rec["snapshot"])) + ";\n   c_j := " + coq_json(rec["ordered"]) +
            ";\n   c_loaded := " + rt(rec["loaded"]) + ";\n   c_jl := " + coq_json(rec["lordered"]) +
            ";\n   c_lloaded := " + rt(rec["lloaded"]) + ";\n   c_ju := " + (coq_result_json(up)) +
            ";\n   c_uloaded := " + rt(rec["uloaded"]) + " |}")


SUBCHECK = {1: "serialize vs _serialize", 2: "load vs from_json", 3: "objectify vs mp_io.objectify", 4: "legacy_load vs mp_io.from_json",
            5: "upgrade vs to_20210209", 6: "load of the upgraded document"}


# ------------------------------------------------------------------ document-first generation (lesson l)
def ftext(rng, surr=False):
    """text for a document: the empty string is as likely as anything else"""
    return fresh("") if rng.random() < 0.25 else rtext(rng, surr)


def gen_doc_snapshot(rng, surr=False, max_nodes=14):
    """a tree as PLAIN DATA (never through Node): closed namespace maps with re-ordering / re-binding / aliases,
    falsy values wherever a string may be (ids, names, content, tail, prefix, keys, values)"""
    n = rng.randint(1, max_nodes)
    used_ids = set()

    def new_id(k):
        c = fresh("") if rng.random() < 0.15 else (fresh("0") if rng.random() < 0.05 else ("d%d" % k) + ftext(rng, surr))
        if c in used_ids:
            c = "d%d" % k
        used_ids.add(c)
        return c

    def pairs(pool, surr):
        out = []
        for _ in range(rng.choice([0, 0, 1, 2, 3])):
            k = fresh(rng.choice(pool)) if rng.random() < 0.7 else ftext(rng, surr)
            if k not in [a for a, _ in out]:
                out.append([k, ftext(rng, surr)])
        return out

    def node(k, pmap):
        m = [list(x) for x in pmap]
        if rng.random() < 0.4:
            rng.shuffle(m)
        for _ in range(rng.choice([0, 0, 1, 2])):
            p, u = fresh(rng.choice(PREFIXES)), fresh(rng.choice(["u1", "u1", "u2", ""]))
            hit = [x for x in m if x[0] == p]
            if hit:
                hit[0][1] = u
            else:
                m.append([p, u])
        attrs, extras = pairs(KEYS, surr), pairs(KEYS, surr)
        if m and rng.random() < 0.4:
            key = fresh("{" + rng.choice(m)[1] + "}" + rng.choice(["x", "lang", ""]))
            tgt = extras if rng.random() < 0.7 else attrs
            if key not in [a for a, _ in tgt]:
                tgt.append([key, ftext(rng, surr)])
        return {"id": new_id(k), "name": fresh(rng.choice(NAMES)) if rng.random() < 0.8 else ftext(rng, surr),
                "content": None if rng.random() < 0.3 else ftext(rng, surr), "tail": None if rng.random() < 0.5 else ftext(rng, surr),
                "prefix": None if rng.random() < 0.5 else fresh(rng.choice(PREFIXES)),
                "attrs": attrs, "extras": extras, "nsmap": m, "kids": []}
    nodes = [node(0, [])]
    depth = {0: 1}
    for k in range(1, n):
        cands = [j for j in range(k) if depth[j] < 5 and len(nodes[j]["kids"]) < 4]
        j = rng.choice(cands)
        c = node(k, nodes[j]["nsmap"])
        nodes.append(c)
        nodes[j]["kids"].append(c)
        depth[k] = depth[j] + 1
    return nodes[0]


def doc_current(sn):
    """the current JSON layout, written from the format description (one-key object name -> 8 one-key objects)"""
    return {sn["name"]: [{"id": sn["id"]}, {"nsmap": {k: v for k, v in sn["nsmap"]}}, {"prefix": sn["prefix"]},
                         {"attributes": {k: v for k, v in sn["attrs"]}}, {"extras": {k: v for k, v in sn["extras"]}},
                         {"content": sn["content"]}, {"tail": sn["tail"]}, {"children": [doc_current(k) for k in sn["kids"]]}]}


def doc_legacy(sn):
    return {sn["name"]: [{"id": sn["id"]}, {"attributes": {k: v for k, v in sn["attrs"]}}, {"content": sn["content"]},
                         {"children": [doc_legacy(k) for k in sn["kids"]]}]}


def document_checks(ctx, sn, to_20210209):
    """load -> compare with the DOCUMENT; load twice -> same tree, same ids; legacy; legacy -> upgrade -> load"""
    from metapype.model import metapype_io, mp_io
    text = json.dumps(doc_current(sn))
    info = {"kind": "impl-vs-statement", "document": text, "document_tree": sn}
    NL.reset_store()
    a = run_impl(lambda: metapype_io.from_json(text))
    b = run_impl(lambda: metapype_io.from_json(fresh(text)))
    loaded = None
    for which, r in (("first", a), ("second", b)):
        if r[0] != "ok":
            ctx.fail("C06:document", f"loading a generated JSON document raised {r[1]}", info)
            continue
        got = NL.snapshot(r[1])
        if got != sn:
            ctx.fail("C06:document", f"the tree loaded from a JSON document ({which} load) is not the document's tree: " + first_diff(sn, got),
                     {**info, "loaded": got})
        elif metapype_io.to_json(r[1]) != text:
            ctx.fail("C06:document", "serialising the tree loaded from a JSON document does not give the document back", info)
        elif not parents_ok(r[1]):
            ctx.fail("C06:parents", "parent links of a tree loaded from a JSON document are not set", info)
        loaded = r[1]
    if a[0] == "ok" and b[0] == "ok" and [x.id for x in all_nodes(a[1])] != [x.id for x in all_nodes(b[1])]:
        ctx.fail("C06:document", "loading the same JSON document twice gives different node ids", info)
    # legacy layout
    lv = legacy_view(sn)
    ltext = json.dumps(doc_legacy(sn))
    la = run_impl(lambda: mp_io.from_json(json.loads(ltext)))
    lb = run_impl(lambda: mp_io.from_json(json.loads(ltext)))
    for r in (la, lb):
        if r[0] != "ok" or NL.snapshot(r[1]) != lv:
            ctx.fail("C06:legacy-document", "the tree loaded from a legacy JSON document is not the document's tree: " +
                     (r[1] if r[0] != "ok" else first_diff(lv, NL.snapshot(r[1]))), {**info, "legacy_document": ltext})
        elif mp_io.to_json(r[1]) != ltext:
            ctx.fail("C06:legacy-document", "serialising the tree loaded from a legacy JSON document does not give the document back",
                     {**info, "legacy_document": ltext})
    # legacy -> converter -> load
    m = json.loads(ltext)
    u = run_impl(lambda: to_20210209(m))
    want_doc = json.dumps(doc_current(lv))
    if u[0] != "ok" or json.dumps(m) != want_doc:
        ctx.fail("C06:upgrade-document", "to_20210209 does not turn a legacy document into the current document with empty namespace data",
                 {**info, "legacy_document": ltext, "upgraded": json.dumps(m)[:2000], "expected": want_doc[:2000]})
    else:
        for _ in range(2):
            r = run_impl(lambda: metapype_io.from_json(json.dumps(m)))
            if r[0] != "ok" or NL.snapshot(r[1]) != lv:
                ctx.fail("C06:upgrade-document", "an upgraded legacy document does not load as the document's tree with empty namespace data: " +
                         (r[1] if r[0] != "ok" else first_diff(lv, NL.snapshot(r[1]))), {**info, "legacy_document": ltext})
    ctx.case(("doc", text), nontrivial=count_nodes(sn) > 1)
    ctx.count("documents generated directly")
    if any(x["id"] == "" for x in walk(sn)):
        ctx.count("documents with an empty-string id")
    return loaded


def constructor_checks(ctx):
    """Node(name, id=x).id == x, also for falsy x; content/tail '' stay ''"""
    from metapype.model.node import Node
    for x in ("", "0", " ", "id", "\x00"):
        NL.reset_store()
        n = Node(fresh("x"), id=fresh(x), content=fresh(""))
        ctx.case(("ctor", x))
        if n.id != x or n.content != "":
            ctx.fail("C06:constructor-id", f"Node(name, id={x!r}).id is {n.id!r}; content '' is {n.content!r}",
                     {"kind": "impl-vs-statement", "call": f"Node('x', id={x!r}, content='')", "observed_id": n.id, "observed_content": n.content})
    NL.reset_store()


DEFAULT_NS_XML = [
    '<a xmlns="urn:d" xmlns:p="urn:p"><b><c/></b><p:e a="1">t</p:e></a>',
    '<a xmlns="urn:d"><b xmlns="urn:e"><c xmlns:q="urn:q"/></b><b/></a>',
    '<x:a xmlns:x="urn:x"><b xmlns="urn:inner" xml:lang="en"><c>text</c>tail</b></x:a>',
]


def fixed_trees():
    """hand-written corner trees (snapshots; built without add_child so exactly these values arise)"""
    def n(id, name="x", content=None, tail=None, prefix=None, attrs=(), extras=(), nsmap=(), kids=()):
        return {"id": id, "name": name, "content": content, "tail": tail, "prefix": prefix, "attrs": [list(a) for a in attrs],
                "extras": [list(a) for a in extras], "nsmap": [list(a) for a in nsmap], "kids": list(kids)}
    return [
        n("r"),
        n("r", "", "", "", "", [("", "")], [("", "")], [("", "")]),
        # same bindings, different key order in parent and child: the ordered-equality fix of add_child
        n("r", nsmap=[("a", "u1"), ("b", "u2")], kids=[n("c", nsmap=[("b", "u2"), ("a", "u1")], kids=[n("g", nsmap=[("a", "u1"), ("b", "u2")])])]),
        # child rebinding a prefix, grandchild back
        n("r", nsmap=[("a", "u1")], kids=[n("c", nsmap=[("a", "u2"), ("b", "u3")], kids=[n("g", nsmap=[("b", "u3"), ("a", "u1")])])]),
        # alias prefixes (two prefixes, one URI), "" URI, "" id
        n("r", nsmap=[("a", "u1"), ("b", "u1"), ("", "u1")], kids=[n("", nsmap=[("a", "u1"), ("b", "u1"), ("", "u1"), ("c", "")],
                                                                      kids=[n("g", nsmap=[("b", "u1"), ("a", "u1"), ("", ""), ("c", "")])])]),
        n("r", nsmap=[("a", "")], kids=[n("c", nsmap=[("a", ""), ("b", "")])]),
        # NOT closed, with an alias: the child lacks prefix a but binds the same URI under b
        n("r", nsmap=[("a", "u1")], kids=[n("c", nsmap=[("b", "u1")])]),
        # NOT closed: child lacks the parent's prefix, grandchild binds it differently
        n("r", nsmap=[("a", "u1")], kids=[n("c", nsmap=[], kids=[n("g", nsmap=[("a", "u9")])])]),
        # NOT closed: child lacks one of two
        n("r", nsmap=[("a", "u1"), ("b", "u2")], kids=[n("c", nsmap=[("b", "u2")])]),
        n("r", "eml", "text \"q\" \\ \n é \U0001F600", "tail", "eml", [("packageId", "p.1.1"), ("system", "s")],
          [("xsi:schemaLocation", "a b")], [("eml", "https://eml.ecoinformatics.org/eml-2.2.0"), ("xsi", "http://www.w3.org/2001/XMLSchema-instance")],
          [n("d", "dataset", nsmap=[("eml", "https://eml.ecoinformatics.org/eml-2.2.0"), ("xsi", "http://www.w3.org/2001/XMLSchema-instance")],
             kids=[n("t", "title", "T", nsmap=[("eml", "https://eml.ecoinformatics.org/eml-2.2.0"), ("xsi", "http://www.w3.org/2001/XMLSchema-instance"), ("z", "zz")])])]),
    ]


def run(ctx):
    from metapype.model import metapype_io
    built = ctx.build(extra_targets=["theories/Model/JsonRun.v"])
    to_20210209, conv_ast = load_converter()
    thorough = ctx.tier == "thorough"
    rng = ctx.rng
    ctx.extra["rule"] = ("trees built through the Node API by random histories (attach in random order and position, declare, remove; "
                         "depth <= 5, fan-out <= 4), text fields from a Unicode pool (quotes, backslashes, control characters, non-BMP; "
                         "lone surrogates in a separately counted share); each tree: round trip, re-serialisation text, parent links, legacy "
                         "codec, upgrade; non-trivial = distinct JSON text of a tree with more than one node or a namespace declaration")
    check_layout(ctx, conv_ast)
    recs = []
    # fixed corner trees
    for sn in fixed_trees():
        NL.reset_store()
        root = NL.build(sn, attach=False)
        _, fclosed, rec = statement_checks(ctx, root, [["built-directly"]], to_20210209, "fixed")
        recs.append(rec)
        if not fclosed and rec["loaded"][0] == "ok":
            NL.reset_store()
            statement_checks(ctx, metapype_io.from_json(rec["text"]), [["built-directly"], ["to_json"], ["from_json"]], to_20210209, "loaded")
    # the shipped fixture
    data = os.path.join(common.REPO, "tests", "data", "eml.json")
    if os.path.exists(data):
        NL.reset_store()
        root = metapype_io.from_json(open(data, encoding="utf-8").read())
        _, closed, rec = statement_checks(ctx, root, [["tests/data/eml.json"]], to_20210209, "fixture")
        ctx.count("fixture eml.json")
    # sizes past 256: many children, many attributes / extras / prefixes on one node
    from metapype.model.node import Node
    NL.reset_store()
    wide = Node(fresh("wide"), id=fresh("w"))
    for k in range(300):
        wide.add_attribute(fresh("a%d" % k), fresh("v%d" % k))
        wide.add_extras(fresh("e%d" % (299 - k)), fresh(""))
    for k in range(300):
        c = Node(fresh("kid"), id=fresh("w%d" % k), content=fresh(str(k)))
        wide.add_child(c, index=None if k % 3 else 0)
    for k in range(300):
        c.add_namespace(fresh("p%d" % k), fresh("u%d" % (k % 7)))       # one node with 300 prefixes
    statement_checks(ctx, wide, [["300 attributes, extras, prefixes and children"]], to_20210209, "wide")
    ctx.count("wide tree (>256 items)")
    constructor_checks(ctx)
    # documents generated directly as data (never through Node)
    for k in range(800 if thorough else 120):
        dsn = gen_doc_snapshot(rng, surr=rng.random() < 0.15)
        loaded = document_checks(ctx, dsn, to_20210209)
        if loaded is not None and k % 3 == 0:
            _, _, rec = statement_checks(ctx, loaded, [["loaded from a generated document"]], to_20210209, "docfirst")
            if len(recs) < 40:
                recs.append(rec)
    # trees with a default-namespace binding (prefix None), as the XML importer produces them
    for xml in DEFAULT_NS_XML:
        NL.reset_store()
        xr = metapype_io.from_xml(xml)
        _, _, rec = statement_checks(ctx, xr, [["from_xml", xml]], to_20210209, "default-ns")
        recs.append(rec)
        ctx.count("trees with a default namespace (None prefix)")
    n_small = 1500 if thorough else 220
    n_big = 600 if thorough else 60
    n_corr = 900 if thorough else 150
    budget_nodes = 12000 if thorough else 1800
    used = 0
    for i in range(n_small + n_big):
        NL.reset_store()
        big = i >= n_small
        surr = rng.random() < 0.15
        root, hist, _ = gen_history_tree(rng, 120 if big else rng.choice([1, 3, 6, 12, 20]), surr,
                                          closed_bias=0.9 if rng.random() < 0.7 else 0.0)
        sn, closed, rec = statement_checks(ctx, root, hist, to_20210209, "gen")
        if not closed and rec["loaded"][0] == "ok":
            # outside the precondition nothing is claimed about t — but what loading produced is a tree the statement
            # speaks about, so every such run also goes through the statement
            NL.reset_store()
            root2 = metapype_io.from_json(rec["text"])
            statement_checks(ctx, root2, hist + [["to_json"], ["from_json"]], to_20210209, "loaded")
            ctx.count("statement on the reload of an ns-violating tree")
        if len(recs) < n_corr and not big and used + count_nodes(sn) <= budget_nodes:
            recs.append(rec)
            used += count_nodes(sn)
        if closed and count_nodes(sn) > 2:
            ctx.sample({"history": hist[:12], "nodes": count_nodes(sn), "json_prefix": rec["text"][:160]}, limit=4)
    NL.reset_store()
    if ctx.dist.get("closed", 0) < 0.5 * (n_small + n_big):
        ctx.fail("harness:generator", "fewer than half of the generated trees satisfy the precondition", {"dist": ctx.dist}, concrete=False)

    # (B) correspondence inside Coq
    shard = 40
    jobs = []
    for i in range(0, len(recs), shard):
        text = HEADER + "Definition cases : list c06case := " + clist(coq_case(r) for r in recs[i:i + shard]) + ".\n" \
            + "Eval vm_compute in check_cases cases.\n"
        jobs.append((f"C06_corr_{i // shard}", text))
    docs = doc_cases(ctx, rng, recs, to_20210209, 1500 if thorough else 300)
    dshard = 100
    for i in range(0, len(docs), dshard):
        text = HEADER + "Definition cases : list doccase := " + clist(t for t, _ in docs[i:i + dshard]) + ".\n" \
            + "Eval vm_compute in doc_mismatches cases.\nEval vm_compute in doc_outside cases.\n"
        jobs.append((f"C06_docs_{i // dshard}", text))
    results = common.coq_eval_many(jobs)
    agree = 0
    outside = 0
    for (name, _), (rc, out) in zip(jobs, results):
        vals = common.parse_eval_values(out) if rc == 0 else []
        if name.startswith("C06_corr_"):
            base = int(name.rsplit("_", 1)[1]) * shard
            n_here = len(recs[base:base + shard])
            if rc != 0 or len(vals) != 1:
                ctx.fail("corr:coq-error", f"case file {name} did not evaluate", {"kind": "broken-correspondence", "file": name, "output": out[-1500:]}, concrete=False)
                continue
            bad = common.parse_nat_list(vals[0])
            agree += n_here - len({b // 8 for b in bad})
            for b in bad[:3]:
                rec = recs[base + b // 8]
                ctx.fail("corr:" + SUBCHECK[b % 8].split()[0], "model and implementation disagree: " + SUBCHECK[b % 8],
                         {"kind": "broken-correspondence", "theorem": "C06 (model/implementation correspondence)", "subcheck": SUBCHECK[b % 8],
                          "tree": rec["snapshot"], "history": rec["history"], "json": rec["text"],
                          "implementation_loaded": rec["loaded"], "implementation_upgraded_loaded": rec.get("uloaded")}, concrete=False)
        else:
            base = int(name.rsplit("_", 1)[1]) * dshard
            n_here = len(docs[base:base + dshard])
            if rc != 0 or len(vals) != 2:
                ctx.fail("corr:coq-error", f"case file {name} did not evaluate", {"kind": "broken-correspondence", "file": name, "output": out[-1500:]}, concrete=False)
                continue
            bad = common.parse_nat_list(vals[0])
            outs = set(common.parse_nat_list(vals[1]))
            outside += len(outs)
            for j in range(n_here):
                meta = docs[base + j][1]
                if j in outs:
                    ctx.count("malformed: model declines (Outside)")
                    continue
                if not meta["representable"]:
                    # the implementation accepted a document whose values the value model cannot carry:
                    # the model must have declined
                    bad = sorted(set(bad) | {j})
                ctx.count("malformed: " + (meta["implementation"][1] if meta["implementation"][0] == "exc" else "accepted"))
                ctx.case(("doc", meta["document"]), nontrivial=True)
            agree += n_here - len(outs) - len(bad)
            for b in bad[:3]:
                meta = docs[base + b][1]
                ctx.fail("corr:malformed:" + meta["which"], "model and implementation disagree on a malformed document (exception class / result)",
                         {"kind": "broken-correspondence", "theorem": "C06 (model/implementation correspondence)", **meta}, concrete=False)
    ctx.extra["traces_validated_against_impl"] = agree
    ctx.extra["documents_the_model_declines"] = outside
    ctx.extra["correspondence_trees"] = len(recs)
    ctx.extra["correspondence_documents"] = len(docs)
    if not built:
        ctx.obligations_failed("round trip, re-serialisation, legacy codec and upgrade executed on %d generated trees" % (n_small + n_big))


def replay(ctx, data):
    """re-run the statement on the recorded tree (rebuilt field by field, no attach step)"""
    rp = data["replay"]
    print(json.dumps({k: v for k, v in rp.items() if k not in ("tree", "reloaded", "expected")}, indent=1, ensure_ascii=True)[:3000])
    to_20210209, _ = load_converter()
    if "tree" in rp:
        NL.reset_store()
        root = NL.build(rp["tree"], attach=False)
        statement_checks(ctx, root, rp.get("history", []), to_20210209, "replay")
        NL.reset_store()
    else:
        run(ctx)

"""C14 — the node registry tracks exactly the live nodes.

(S) statement search: random histories of create / copy / JSON import / XML import / attach /
    replace ± delete_old / prune ± strict / expand / delete ± children with the harness holding
    every node object; independent bookkeeping (created minus discarded, written from the
    property text) predicts the registry after every step:  set(Node.store) == ids of live
    nodes,  Node.get_node_instance(id) is node  for every live node, no id shared by two node
    objects, every registry entry keyed by the id of the object it holds.  Histories only
    contain operations that return normally and never reuse an id deliberately.
(B) correspondence: the Gallina model (Model/Registry.v, RegOps.v, Copy.v, HeapEdits.v) evaluated
    inside Coq on random create/copy/attach/replace/delete scripts, including deletes that
    raise (KeyError / AttributeError): full object state + registry in insertion order."""
import json
import signal

from harness import common, heaplib as HL

VOCAB = ["eml", "dataset", "title", "creator", "contact", "individualName", "surName", "givenName",
         "references", "bogus", "abstract", "para"]


def _alarm(signum, frame):
    raise TimeoutError("operation did not return within 30 s")


def subtree_nodes(n):
    """pre-order walk, safe on shared child lists and cycles (each object once)"""
    out, todo, seen = [], [n], set()
    while todo:
        x = todo.pop()
        if id(x) in seen:
            continue
        seen.add(id(x))
        out.append(x)
        todo.extend(reversed(x.children))
    return out


class Book:
    """created \\ discarded, written from the property text; knows nothing of Node.store"""

    def __init__(self):
        self.held = []          # every node object ever seen, in discovery order
        self.known = set()
        self.discarded = set()  # python ids of discarded node objects

    def discover(self, n):
        for x in subtree_nodes(n):
            if id(x) not in self.known:
                self.known.add(id(x))
                self.held.append(x)

    def rediscover(self):
        for x in list(self.held):
            self.discover(x)

    def live(self, n):
        return id(n) not in self.discarded

    def all_live(self, n):
        return all(self.live(x) for x in subtree_nodes(n))

    def discard_subtree(self, n):
        for x in subtree_nodes(n):
            self.discarded.add(id(x))

    def expected_ids(self):
        return {x.id for x in self.held if self.live(x)}


def fresh_json(node, counter, indent=None):
    from metapype.model import metapype_io
    doc = json.loads(metapype_io.to_json(node, indent=indent))

    def ren(d):
        (name, body), = d.items()
        counter[0] += 1
        body[0]["id"] = "j%d" % counter[0]
        for ch in body[7]["children"]:
            ren(ch)
    ren(doc)
    return json.dumps(doc)


def random_xml(rng, depth=0):
    name = rng.choice(VOCAB[:9])
    if depth >= 2 or rng.random() < 0.4 or name == "references":
        return f"<{name}>t{rng.randint(0, 9)}</{name}>"
    kids = "".join(random_xml(rng, depth + 1) for _ in range(rng.randint(1, 3)))
    attr = ' id="x%d"' % rng.randint(0, 3) if rng.random() < 0.3 else ""
    return f"<{name}{attr}>{kids}</{name}>"


def is_detached_root(b, c):
    if c.parent is not None:
        return False
    return not any(c in x.children for x in b.held)


def above(c, par):
    """c is par or an ancestor-holder of par (par in subtree(c))"""
    return any(x is par for x in subtree_nodes(c))


def inside_references(n):
    """n is a references node or lies below one (references elements are leaves in EML)"""
    x = n
    while x is not None:
        if x.name == "references":
            return True
        x = x.parent
    return False


def expand_in_scope(root):
    """precondition of references.expand as the coordinator states it for C16: references nodes are
    leaves, and no referenced element holds a references node (this also excludes the
    non-terminating self-reference)"""
    nodes = subtree_nodes(root)
    refs = [x for x in nodes if x.name == "references"]
    if any(x.children for x in refs):
        return False
    wanted = {x.content for x in refs}
    for x in nodes:
        if x.attributes.get("id") in wanted and any(y.name == "references" for y in subtree_nodes(x)):
            return False
    return True


def self_referential(root):
    """a references node lying inside the element it refers to: references.expand does not
    terminate on the direct-child case (it iterates the child list it is inserting into) --
    outside C14 (reported to the coordinator for C16); such inputs are not generated"""
    for x in subtree_nodes(root):
        ident = x.attributes.get("id")
        if ident is None:
            continue
        for y in subtree_nodes(x):
            if y.name == "references" and y.content == ident:
                return True
    return False


REPEATABLE = ("expand", "prune", "copy", "json")


def choose_op(rng, b, idc, prev=None):
    """Pick the next operation as plain data (indices into b.held)."""
    held = b.held
    # history sensitivity: the same operation again on the same object (expand twice, prune twice,
    # copy the node again, copy the copy), when it is still inside the statement
    if prev is not None and prev[0] in REPEATABLE and rng.random() < 0.35:
        n = held[prev[1]]
        if prev[0] == "copy":
            return rng.choice([prev, ("copy", len(held) - 1 - rng.randrange(min(3, len(held))))])
        if prev[0] == "json":
            return prev
        if b.all_live(n) and (prev[0] != "expand" or (not self_referential(n) and expand_in_scope(n))):
            return prev
    for _ in range(30):
        r = rng.random()
        if not held or r < 0.16:
            idc[0] += 1
            return ("create", rng.choice(VOCAB), ("n%d" % idc[0]) if rng.random() < 0.5 else None,
                    rng.choice([None, "c1", "x1", "text", ""]))
        k = rng.randrange(len(held))
        n = held[k]
        if r < 0.26:
            return ("copy", k)
        if r < 0.33:
            return ("json", k, rng.choice([None, None, 2]))
        if r < 0.40:
            return ("xml", random_xml(rng), rng.random() < 0.7, rng.random() < 0.3)
        if r < 0.58:
            roots = [i for i, c in enumerate(held) if is_detached_root(b, c)]
            if not roots:
                continue
            ci = rng.choice(roots)
            if above(held[ci], n) or inside_references(n):
                continue
            return ("attach", k, ci)
        if r < 0.68:
            if not n.children:
                continue
            old = rng.choice(n.children)
            delete = rng.random() < 0.6
            if delete and not b.all_live(old):
                continue
            return ("replace", k, b.held.index(old), delete)
        if r < 0.78:
            if not b.all_live(n) or (n.parent is not None and rng.random() < 0.7):
                continue
            return ("prune", k, rng.random() < 0.5)
        if r < 0.82:
            # a resolvable reference below held[k]: creator[id=r] > individualName > surName, contact > references(r)
            if inside_references(n):
                continue
            idc[0] += 1
            # referenced element with 0 / 1 / several children, 1-3 references to the same id, each at its own depth
            return ("refpattern", k, "r%d" % idc[0], rng.choice([0, 0, 1, 2, 3]), rng.randint(1, 3),
                    tuple(rng.randint(0, 2) for _ in range(3)))
        if r < 0.88:
            withrefs = [i for i, x in enumerate(held) if b.all_live(x) and any(y.name == "references" for y in subtree_nodes(x))]
            if withrefs and rng.random() < 0.8:
                k = rng.choice(withrefs)
                n = held[k]
            if not b.all_live(n) or self_referential(n) or not expand_in_scope(n):
                continue
            return ("expand", k)
        if r < 0.90:
            # an operation that must REFUSE: it has to leave trees and registry as they were
            j = rng.randrange(len(held))
            kind = rng.choice(["replace", "replace", "remove", "shift", "delete"])
            return ("refuse", kind, k, j, rng.random() < 0.7)
        if r < 0.93:
            if n.name == "creator" or n.name == "contact":
                return ("setid", k, "x%d" % rng.randint(0, 3))
            if n.name == "references":
                return ("setcontent", k, "x%d" % rng.randint(0, 3))
            continue
        children = rng.random() < 0.6
        if not b.live(n) or (children and not b.all_live(n)):
            continue
        return ("delete", k, children)
    idc[0] += 1
    return ("create", rng.choice(VOCAB), "n%d" % idc[0], None)


def apply_op(b, op, jc, stats=None):
    """Execute one operation on the implementation and update the bookkeeping from the
    operation's DOCUMENTED effect. Returns None or the name of an exception that escaped."""
    from metapype.model.node import Node
    from metapype.model import metapype_io
    from metapype.eml import validate, references
    held = b.held
    op = tuple(HL.fresh(x) for x in op)          # new str objects for every name / id / value
    k = op[0]
    if k == "create":
        n = Node(op[1], id=op[2], content=op[3])
        b.discover(n)
    elif k == "copy":
        b.discover(held[op[1]].copy())
    elif k == "json":
        b.discover(metapype_io.from_json(fresh_json(held[op[1]], jc, op[2] if len(op) > 2 else None)))
    elif k == "xml":
        if len(op) > 2:
            b.discover(metapype_io.from_xml(op[1], clean=op[2], collapse=op[3]))
        else:
            b.discover(metapype_io.from_xml(op[1]))
    elif k == "attach":
        held[op[1]].add_child(held[op[2]])
    elif k == "refpattern":
        top = held[op[1]]
        nkids, nrefs, depths = (op[3], op[4], op[5]) if len(op) > 3 else (1, 1, [0])
        cr = Node("creator")
        cr.add_attribute("id", op[2])
        for j in range(nkids):                      # the referenced element: empty, one child, or several
            ind = Node("individualName")
            ind.add_child(Node("surName", content="s%d" % j))
            cr.add_child(ind)
        top.add_child(cr)
        for j in range(nrefs):                      # several references to the same id, at different depths
            holder = top
            for _ in range(depths[j % len(depths)]):
                mid = Node("dataset")
                holder.add_child(mid)
                holder = mid
            co = Node("contact")
            co.add_child(Node("references", content=op[2]))
            holder.add_child(co)
        b.discover(top)
    elif k == "refuse":
        from metapype.model.node import Shift
        par, other = held[op[2]], held[op[3]]
        if any(c is other for c in par.children):
            return None                      # it would be accepted: not this operation's subject
        stub = None
        if op[1] == "replace":
            stub = Node("".join(list(other.name)))      # same element name: only the missing child link can refuse
            b.discover(stub)
        before = (list(Node.store.items()), [(id(x), [id(c) for c in x.children], id(x.parent)) for x in held])
        try:
            if op[1] == "replace":
                par.replace_child(other, stub, delete_old=op[4])
            elif op[1] == "remove":
                par.remove_child(other)
            elif op[1] == "shift":
                par.shift(other, Shift.LEFT)
            else:
                Node.delete_node_instance("".join(list("no-such-id-%d" % op[3])), children=op[4])
        except (ValueError, KeyError, AttributeError):
            after = (list(Node.store.items()), [(id(x), [id(c) for c in x.children], id(x.parent)) for x in held])
            if stats is not None:
                stats("refused:" + op[1])
            if after[0] != before[0]:
                return "REFUSED-BUT-REGISTRY-CHANGED"
            if after[1] != before[1]:
                return "REFUSED-BUT-TREE-CHANGED"
            b.rediscover()
            return None
        return "refusal expected (" + op[1] + " of a node that is not a child) but the call returned"
    elif k == "setid":
        held[op[1]].add_attribute("id", op[2])
    elif k == "setcontent":
        held[op[1]].content = op[2]
    elif k == "replace":
        par, old = held[op[1]], held[op[2]]
        new = Node(old.name)
        b.discover(new)
        if op[3]:
            doomed = subtree_nodes(old)
        par.replace_child(old, new, delete_old=op[3])
        if op[3]:
            for x in doomed:
                b.discarded.add(id(x))
    elif k == "prune":
        pruned = validate.prune(held[op[1]], strict=op[2])
        if stats is not None:
            stats("prune:removed_%s" % ("some" if pruned else "none"))
        for (x, _msg) in pruned:
            b.discard_subtree(x)
    elif k == "expand":
        root = held[op[1]]
        refs = []
        root.find_all_descendants("references", refs)
        before = list(Node.store.items())
        try:
            references.expand(root)
        except ValueError:
            if list(Node.store.items()) != before:
                return "expand-not-atomic"
            if stats is not None:
                stats("expand:rejected")
            return None
        if stats is not None:
            stats("expand:done_refs=%d" % min(len(refs), 2))
        for x in refs:
            b.discard_subtree(x)
    elif k == "delete":
        n = held[op[1]]
        doomed = subtree_nodes(n) if op[2] else [n]
        Node.delete_node_instance(n.id, children=op[2])
        for x in doomed:
            b.discarded.add(id(x))
    b.rediscover()
    return None


def check_state(b):
    """The statement. Returns None or (key-suffix, description, details)."""
    from metapype.model.node import Node
    ids = {}
    lists, listed = {}, {}
    for x in b.held:
        if id(x.children) in lists and lists[id(x.children)] is not x:
            return ("shared-child-list", "two node objects hold the SAME child-list object (an edit of one tree shows up in the other)",
                    {"nodes": [lists[id(x.children)].name, x.name], "ids": [lists[id(x.children)].id, x.id]})
        lists[id(x.children)] = x
        for c in x.children:
            if id(c) in listed and listed[id(c)] is not x:
                return ("two-listers", "a node is listed as a child by two different nodes", {"child": c.id})
            listed[id(c)] = x
    for x in b.held:
        if x.id in ids and ids[x.id] is not x:
            return ("id-collision", "two node objects carry the same id", {"id": x.id})
        ids[x.id] = x
    exp = b.expected_ids()
    got = set(Node.store.keys())
    if got != exp:
        return ("domain", "registry keys differ from the ids of created-and-not-discarded nodes",
                {"registered_but_not_live": sorted(got - exp)[:5], "live_but_not_registered": sorted(exp - got)[:5],
                 "names_of_missing": [x.name for x in b.held if b.live(x) and x.id in exp - got][:5]})
    for x in b.held:
        if b.live(x) and Node.get_node_instance(x.id) is not x:
            return ("lookup", "get_node_instance(id) does not return the live node carrying the id", {"id": x.id, "name": x.name})
    for kk, v in Node.store.items():
        if v.id != kk:
            return ("key", "a registry entry is keyed by an id that its node does not carry", {"key": kk, "node_id": v.id})
    return None


def run_history(ctx, oplog_or_none, rng, length):
    """Generate (or replay) one history; returns the op log; reports the first failure."""
    from metapype.model.node import Node
    Node.store.clear()
    b = Book()
    idc, jc = [0], [0]
    log = []
    for step in range(length if oplog_or_none is None else len(oplog_or_none)):
        op = choose_op(rng, b, idc, log[-1] if log else None) if oplog_or_none is None else tuple(oplog_or_none[step])
        log.append(op)
        ctx.count("op:" + op[0] + (":" + str(op[-1]) if op[0] in ("replace", "prune", "delete") else ""))
        try:
            signal.signal(signal.SIGALRM, _alarm)
            signal.alarm(30)                       # an operation that does not return is a failure, not a hung check
            try:
                esc = apply_op(b, op, jc, ctx.count)
            finally:
                signal.alarm(0)
        except Exception as e:
            esc = type(e).__name__ + ": " + str(e)[:120]
        if esc is not None:
            # The statement quantifies over operations that return normally: an operation that raises ends the
            # history (its partial effects are outside the statement). Only a hang or a non-atomic rejected
            # expand is reported.
            ctx.count("op_raised:" + op[0] + ":" + esc.split(":")[0])
            if esc.startswith("REFUSED-BUT"):
                ctx.fail(f"C14:refused-{op[1]}:side-effect",
                         f"a rejected {op[1]} call (the node is not a child of that parent) changed the "
                         + ("registry" if "REGISTRY" in esc else "tree"),
                         {"kind": "impl-vs-statement", "history": [list(o) for o in log], "escaped": esc})
            elif esc == "expand-not-atomic" or esc.startswith("TimeoutError") or esc.startswith("refusal expected"):
                ctx.fail(f"C14:{op[0]}:raises", f"{op[0]} did not return normally ({esc})",
                         {"kind": "impl-vs-statement", "history": [list(o) for o in log], "escaped": esc})
            else:
                ctx.note(f"history ended by an operation outside the statement: {op[0]} raised {esc.split(':')[0]}")
            return log
        bad = check_state(b)
        if bad is not None:
            ctx.fail(f"C14:{op[0]}:{bad[0]}", f"after {op[0]}: {bad[1]}",
                     {"kind": "impl-vs-statement", "history": [list(o) for o in log], "details": bad[2]})
            return log
        ctx.case((repr(log[-3:]), len(b.held), len(b.discarded)), True)
    ctx.count("nodes_per_history", len(b.held))
    ctx.count("discarded_per_history", len(b.discarded))
    return log


# ------------------------------------------------------------------ dropped references (lesson h)
def _make_tree(rng, idc, jc):
    """Build one tree through a random public route; returns its root. Called from a frame that is
    left before the lookup, so the only references that survive are the ones the caller keeps."""
    from metapype.model.node import Node
    from metapype.model import metapype_io
    route = rng.choice(["ctor", "ctor", "xml", "json", "copy"])
    if route == "xml":
        return metapype_io.from_xml(random_xml(rng))
    idc[0] += 1
    root = Node("".join(list("dataset")), id=("".join(list("g%d" % idc[0])) if rng.random() < 0.5 else None))
    nodes = [root]
    for _ in range(rng.randint(0, 5)):
        c = Node(rng.choice(VOCAB), content=rng.choice([None, "", "t"]))
        rng.choice(nodes).add_child(c)
        nodes.append(c)
    if route == "json":
        return metapype_io.from_json(fresh_json(root, jc))      # root (registered too) is dropped by the caller's frame
    if route == "copy":
        return root.copy()
    return root


def _gc_round(rng, idc, jc, expect, gone, keep):
    from metapype.model.node import Node
    root = _make_tree(rng, idc, jc)
    nodes = subtree_nodes(root)
    mode = rng.choice(["root", "nothing", "nothing", "inner"])
    # an explicit delete is the only thing that may make an id unavailable
    doomed = set()
    if rng.random() < 0.3:
        x = rng.choice(nodes)
        ch = rng.random() < 0.5
        doomed = {y.id for y in (subtree_nodes(x) if ch else [x])}
        Node.delete_node_instance(x.id, children=ch)
    for y in nodes:
        (gone if y.id in doomed else expect).append((y.id, y.name))
    if mode == "root":
        keep.append(root)
    elif mode == "inner":
        keep.append(rng.choice(nodes))


def gc_phase(ctx, rng, rounds):
    """create / import / copy trees, keep only their ids (for some the root or one inner node, for most
    nothing), collect garbage, then every id that was not deleted must still be retrievable"""
    import gc
    from metapype.model.node import Node
    Node.store.clear()
    expect, gone, keep = [], [], []
    idc, jc = [0], [0]
    for _ in range(rounds):
        _gc_round(rng, idc, jc, expect, gone, keep)
    # trees built for json/copy routes leave their source trees registered too; they were created, never
    # deleted, and are not tracked individually: only the tracked ids are checked
    gc.collect()
    gc.collect()
    for ident, name in expect:
        ctx.case(("gc", len(expect)), False)
        n = Node.get_node_instance(ident)
        if n is None or n.id != ident or n.name != name:
            ctx.fail("C14:gc:lookup", "a node that was created and never deleted is not retrievable by its id once the caller holds no reference to it",
                     {"kind": "impl-vs-statement", "phase": "build trees, keep only ids (some roots), gc.collect(), look up",
                      "id": ident, "name": name, "got": None if n is None else [n.id, n.name], "trees": rounds,
                      "how": "t = Node('dataset'); i = t.id; del t; gc.collect(); Node.get_node_instance(i)"})
            break
    for ident, name in gone:
        if Node.get_node_instance(ident) is not None:
            ctx.fail("C14:gc:deleted-still-registered", "a deleted id is still retrievable", {"kind": "impl-vs-statement", "id": ident})
            break
    ctx.count("gc_phase_ids_checked", len(expect))
    ctx.count("gc_phase_ids_deleted", len(gone))
    ctx.case(("gc-phase", rounds), True)
    keep.clear()


# ------------------------------------------------------------------ (B) model scripts
def gen_model_script(rng):
    names = ["a", "b"]
    sc = []
    w_nodes = []          # (name, parent index or None, kids)
    parent = {}
    kids = {}
    regd = {}             # object number -> explicit id or None

    def n_objs():
        return len(w_nodes)
    k = rng.randint(2, 5)
    for i in range(k):
        nm = rng.choice(names)
        ident = "n%d" % i if rng.random() < 0.6 else None
        sc.append(("create", nm, ident, None))
        w_nodes.append(nm)
        kids[i] = []
        parent[i] = None
    steps = rng.randint(2, 7)
    for _ in range(steps):
        # the shadow structure is only used to keep attach acyclic; everything else may fail
        r = rng.random()
        n = n_objs()
        if r < 0.35:
            roots = [i for i in range(n) if parent.get(i) is None]
            c = rng.choice(roots)
            cands = [p for p in range(n) if p != c]

            def sub(x):
                out = [x]
                for y in kids.get(x, []):
                    out += sub(y)
                return out
            cands = [p for p in cands if p not in sub(c)]
            if not cands:
                continue
            p = rng.choice(cands)
            sc.append(("attach", p, c, rng.choice([None, 0])))
            parent[c] = p
            kids[p].append(c)
        elif r < 0.5:
            # copy: the harness cannot predict object numbers of the copy without running; keep the
            # shadow simple by ending the script after a copy followed by one registry operation
            t = rng.randrange(n)
            sc.append(("copy", t))
            sc.append(rng.choice([("delete", ("obj", t), True), ("delete", ("obj", rng.randrange(n)), False),
                                  ("delete", "no-such-id", rng.random() < 0.5)]))
            return sc
        elif r < 0.7:
            ps = [p for p in range(n) if kids.get(p)]
            if not ps:
                continue
            p = rng.choice(ps)
            old = rng.choice(kids[p])
            sc.append(("create", w_nodes[old] if rng.random() < 0.9 else "zz", None, None))
            w_nodes.append(w_nodes[old])
            new = n
            kids[new] = []
            parent[new] = None
            d = rng.random() < 0.6
            sc.append(("replace", p, old, new, d))
            if w_nodes[old] == sc[-2][1]:
                kids[p][kids[p].index(old)] = new
                parent[new] = p
                parent[old] = None
        else:
            t = rng.randrange(n)
            sc.append(("delete", ("obj", t) if rng.random() < 0.85 else "no-such-id", rng.random() < 0.6))
    return sc


def run(ctx):
    built = ctx.build(extra_targets=["theories/Model/HeapRun.v", "theories/Proofs/C14_Examples.v"])
    thorough = ctx.tier == "thorough"
    nhist = 2500 if thorough else 250
    length = 70 if thorough else 50
    ctx.extra["rule"] = (f"{nhist} random histories of length {length} over create / copy / JSON import (fresh ids) / XML import / attach / "
                         "replace +- delete_old / prune +- strict / expand / delete +- children on EML-named and unknown-named nodes, each operation "
                         "chosen so that it is covered by the statement (returns normally, no deliberate id reuse); the statement is checked "
                         "after every step; non-trivial = distinct (last three operations, number of node objects, number discarded)")
    for i in range(nhist):
        log = run_history(ctx, None, ctx.rng, length)
        if i < 2:
            ctx.sample({"history_prefix": [list(o) for o in log[:10]]})
    gc_phase(ctx, ctx.rng, 300 if thorough else 60)
    # ---- one wide tree (more than 256 children), delete with children
    from metapype.model.node import Node
    Node.store.clear()
    wide = Node("dataset")
    for i in range(300):
        wide.add_child(Node("title", content="".join(list("c%d" % i))))
    wid = [x.id for x in subtree_nodes(wide)]
    other = Node("eml")
    Node.delete_node_instance(wide.id, children=True)
    if set(Node.store.keys()) != {other.id}:
        ctx.fail("C14:delete:domain", "deleting a node with 300 children did not remove exactly its subtree's ids",
                 {"kind": "impl-vs-statement", "history": "dataset with 300 title children + one eml node; delete(dataset.id, children=True)",
                  "left": sorted(set(Node.store.keys()) - {other.id})[:5], "lost": other.id not in Node.store})
    ctx.case(("delete", "wide-300"), True)
    # ---- (B)
    terms, metas = [], []
    nscripts = 1200 if thorough else 240
    for _ in range(nscripts):
        sc = gen_model_script(ctx.rng)
        term, w, raised = HL.coq_case(sc)
        if raised is not None:
            sc = sc[:raised[0] + 1]      # the model is compared on the failing command's exception class
            term, w, raised = HL.coq_case(sc)
            ctx.count("model_script_raises:" + raised[1])
        terms.append(term)
        metas.append(sc)
        # the runs made for (B) also go through the statement: entries keyed by the id of the object they hold,
        # lookups return that object, and an object whose id was never passed to delete is registered
        deleted_ids = {w.cid(w.idof(c[1])) for c in sc if c[0] == "delete"}
        replaced = any(c[0] == "replace" and c[4] for c in sc)
        for kk, v in w.Node.store.items():
            if v.id != kk or w.Node.get_node_instance(kk) is not v:
                ctx.fail("C14:script:key", "a registry entry is keyed by an id its node does not carry", {"kind": "impl-vs-statement", "script": [list(x) for x in sc]})
        if raised is None and not replaced and not any(c[0] == "delete" and c[2] for c in sc):
            for o in w.objs:
                if w.cid(o.id) not in deleted_ids and w.Node.get_node_instance(o.id) is not o:
                    ctx.fail("C14:script:domain", "a node that no operation of the script discarded is not registered",
                             {"kind": "impl-vs-statement", "script": [list(x) for x in sc], "id": w.cid(o.id)})
    bad, errors = HL.coq_failing(common, "C14", "corr", terms, shard=40)
    ctx.extra["traces_validated_against_impl"] = len(terms) - len(bad)
    ctx.extra["model_cases"] = len(terms)
    for name, out in errors:
        ctx.fail("corr:coq-error", f"case file {name} did not evaluate",
                 {"kind": "broken-correspondence", "file": name, "output": out}, concrete=False)
    for i in bad[:3]:
        w, cmds, raised = HL.run_script(metas[i])
        ctx.fail("corr:registry", "model and implementation disagree on a registry script (object state, registry order or exception class)",
                 {"kind": "broken-correspondence", "theorem": "C14 (model/implementation correspondence)",
                  "script": [list(x) if not isinstance(x, str) else x for x in metas[i]],
                  "implementation": (w.observe()[1] if raised is None else raised),
                  "model": HL.coq_show(common, "C14", cmds)}, concrete=False)
    if not built:
        ctx.obligations_failed("%d random histories of length %d against the created-minus-discarded bookkeeping" % (nhist, length))


def replay(ctx, data):
    r = data.get("replay", {})
    hist = r.get("history")
    if not hist:
        print("no history in the replay file: running the full check")
        return run(ctx)
    log = run_history(ctx, [tuple(o) for o in hist], ctx.rng, len(hist))
    print("replayed", len(log), "operations")

"""C18 — structural equality compares whole trees.

Cases: for random trees t, every node x every kind of single edit (name, content, tail, prefix,
one key of attributes / extras / nsmap added, changed, removed or replaced by another key, the id, a child added, removed,
two adjacent children exchanged) applied to an independently built twin or to t.copy(), on either
side; equal pairs built independently (also with every dict in another insertion order) and via
Node.copy(); the same object; pairs sharing one child object.  Both argument orders always.
Half of the trees are built the way the library's users build them (add_child, then add_namespace /
set_nsmap on the finished tree), so that nsmap dict OBJECTS are shared down the tree; snapshots record
the sharing classes and replays reproduce them.  History: every edited pair is compared once before the
edit and again afterwards on the same objects; every answer is compared with the answer on freshly built
identical trees and with a repeated call.

(S) statement search: Node.is_equal against an independent plain-Python deep comparison of the
two snapshots (dicts as dicts, children in order), for every pair of DISTINCT trees.  For edited pairs
the expectation is the UNTOUCHED tree as it was before the edit against the edited one, and the
untouched tree's snapshot must not change (edits are made in place, half of them by writing into the
exposed dicts / child list).  Every string handed to the library is a fresh str object; pairs of
distinct trees with identical Node.ids (explicit ids, the same JSON loaded twice) are included.
(B) correspondence: Model/Equal.v [is_equal] evaluated inside Coq on the same pairs, with the
object identities the implementation saw."""
from harness import common
from harness import nodelib as NL
from harness.common import clist, cnat

# every pool string has more than one character (single-character strings and "" are singletons in
# CPython, so they cannot be made fresh); "" and None stay in as the falsy-but-legal values
NAMES = ["aa", "bb", "dataset"]
KEYS = ["kk", "id", "x:y", "scope"]
VALS = ["", "11", "vv", "w w", "é中", None, None]      # dict values may be None (e.g. extras set by callers)
TEXTS = [None, "", "tt", "some text", "éé"]
PREFIXES = [None, "eml", "xx"]
NSKEYS = KEYS + [None]          # nsmap prefixes: None is the default-namespace binding


def fresh(s):
    """a NEW str object equal to s (never a shared literal or pool constant)"""
    if not isinstance(s, str) or len(s) < 2:
        return s
    r = "".join(list(s))
    assert r == s and r is not s
    return r


def fresh_snap(sn):
    """the same snapshot with every string a new object: two trees built from it share no str"""
    out = {k: fresh(v) for k, v in sn.items() if k not in ("attrs", "extras", "nsmap", "kids")}
    for f in ("attrs", "extras", "nsmap"):
        out[f] = [[fresh(k), fresh(v)] for k, v in sn[f]]
    out["kids"] = [fresh_snap(k) for k in sn["kids"]]
    return out
HEADER = "From MP Require Import Model.EqualRun.\n"


# ------------------------------------------------------------------ generation
def rand_dict(rng, maxn=3, pool=None):
    pool = KEYS if pool is None else pool
    n = rng.choice([0, 0, 1, 2, maxn])
    ks = rng.sample(pool, min(n, len(pool)))
    return [[k, rng.choice(VALS)] for k in ks]


def rand_tree(rng, budget, depth=0):
    """snapshot dict of a random tree with at most `budget` nodes"""
    sn = {"id": None, "name": rng.choice(NAMES), "content": rng.choice(TEXTS), "tail": rng.choice(TEXTS[:3]),
          "prefix": rng.choice(PREFIXES), "attrs": rand_dict(rng), "extras": rand_dict(rng, 2),
          "nsmap": rand_dict(rng, 2, NSKEYS), "kids": []}
    budget -= 1
    if depth < 3:
        nk = rng.choice([0, 1, 2, 2, 3]) if depth else rng.choice([1, 2, 3])
        for _ in range(nk):
            if budget <= 0:
                break
            share = rng.randint(1, budget)
            if rng.random() < 0.25 and sn["kids"]:
                # a twin of the previous child: exchanging the two is then NOT an edit
                k = clone_snap(sn["kids"][-1])
            else:
                k = rand_tree(rng, share, depth + 1)
            budget -= count(k)
            sn["kids"].append(k)
    return sn


def clone_snap(sn):
    return {**sn, "attrs": [list(p) for p in sn["attrs"]], "extras": [list(p) for p in sn["extras"]],
            "nsmap": [list(p) for p in sn["nsmap"]], "kids": [clone_snap(k) for k in sn["kids"]]}


def count(sn):
    return 1 + sum(count(k) for k in sn["kids"])


def with_ids(sn, tag, ctr=None):
    ctr = ctr if ctr is not None else [0]
    out = dict(sn)
    out["id"] = f"{tag}{ctr[0]}"
    ctr[0] += 1
    out["kids"] = [with_ids(k, tag, ctr) for k in sn["kids"]]
    return out


def shuffled_dicts(sn, rng):
    out = dict(sn)
    for f in ("attrs", "extras", "nsmap"):
        d = [list(p) for p in sn[f]]
        rng.shuffle(d)
        out[f] = d
    out["kids"] = [shuffled_dicts(k, rng) for k in sn["kids"]]
    return out


def snap_sh(node, cls=None):
    """nodelib.snapshot plus the identity class of every nsmap dict (which nodes share one
    dict OBJECT), so that a replay / a fresh rebuild reproduces the sharing."""
    cls = {} if cls is None else cls
    sn = {"id": node.id, "name": node.name, "content": node.content, "tail": node.tail, "prefix": node.prefix,
          "attrs": [[k, v] for k, v in node.attributes.items()], "extras": [[k, v] for k, v in node.extras.items()],
          "nsmap": [[k, v] for k, v in node.nsmap.items()], "nsmap_cls": cls.setdefault(id(node.nsmap), len(cls))}
    sn["kids"] = [snap_sh(c, cls) for c in node.children]
    return sn


def build_sh(sn, dicts=None):
    """exact rebuild (fields set directly), one dict object per recorded nsmap class"""
    dicts = {} if dicts is None else dicts
    n = NL.build({**sn, "kids": []}, attach=False)
    if "nsmap_cls" in sn:
        if sn["nsmap_cls"] in dicts:
            n.nsmap = dicts[sn["nsmap_cls"]]
        else:
            dicts[sn["nsmap_cls"]] = n.nsmap
    for k in sn["kids"]:
        c = build_sh(k, dicts)
        n.children.append(c)
        c.parent = n
    return n


def strip_ns(sn):
    return {**sn, "nsmap": [], "kids": [strip_ns(k) for k in sn["kids"]]}


def rand_ns_plan(rng, nnodes):
    """How a caller gives a finished tree its namespaces: declarations on the root AFTER assembling
    (add_namespace propagates and keeps one shared dict), or set_nsmap, then possibly a further
    declaration on an inner node (its subtree then shares a second dict)."""
    plan = []
    if rng.random() < 0.3:
        plan.append(["set_nsmap", [[k, rng.choice(VALS)] for k in rng.sample(NSKEYS, rng.randint(0, 2))]])
    else:
        for k in rng.sample(NSKEYS, rng.randint(1, 2)):
            plan.append(["add_ns", 0, k, rng.choice(VALS)])
    if nnodes > 1 and rng.random() < 0.5:
        plan.append(["add_ns", rng.randrange(1, nnodes), rng.choice(NSKEYS), rng.choice(VALS)])
    # NON-CLOSED maps, made the ways the API allows: an inner node drops a prefix its parent declares
    # (remove_namespace), gets a map assigned directly, or an ancestor re-declares without its children
    if nnodes > 1 and rng.random() < 0.6:
        for _ in range(rng.randint(1, 2)):
            how = rng.choice(["remove_ns", "assign", "set_nsmap_nochildren"])
            if how == "remove_ns":
                plan.append(["remove_ns", rng.randrange(1, nnodes), rng.randrange(8)])
            elif how == "assign":
                plan.append(["assign", rng.randrange(1, nnodes), [[k, rng.choice(VALS)] for k in rng.sample(NSKEYS, rng.randint(0, 2))]])
            else:
                plan.append(["set_nsmap_nochildren", rng.randrange(0, nnodes),
                             [[k, rng.choice(VALS)] for k in rng.sample(NSKEYS, rng.randint(1, 3))]])
    return plan


def lib_build(sn, plan):
    """Assemble with add_child (empty maps: every child ends up sharing the parent's dict), then
    declare the namespaces the way the library's users do."""
    root = NL.build(strip_ns(sn), attach=True)
    for step in plan:
        nodes = nodes_preorder(root)
        if step[0] == "set_nsmap":
            root.set_nsmap({fresh(k): fresh(v) for k, v in step[1]})
        elif step[0] == "remove_ns":
            nd = nodes[step[1] % len(nodes)]
            if nd.nsmap:
                nd.remove_namespace(list(nd.nsmap)[step[2] % len(nd.nsmap)])
        elif step[0] == "assign":
            nodes[step[1] % len(nodes)].nsmap = {fresh(k): fresh(v) for k, v in step[2]}
        elif step[0] == "set_nsmap_nochildren":
            nodes[step[1] % len(nodes)].set_nsmap({fresh(k): fresh(v) for k, v in step[2]}, children=False)
        else:
            nodes[step[1] % len(nodes)].add_namespace(fresh(step[2]), fresh(step[3]))
    return root


def nodes_preorder(n):
    out = [n]
    for c in n.children:
        out.extend(nodes_preorder(c))
    return out


# ------------------------------------------------------------------ the independent oracle (S)
def deep_eq(a, b):
    """Plain deep comparison of two snapshots, from the property text: name, content, tail,
    attributes, extras, prefix, namespace map, and recursively and in order all children."""
    if (a["name"], a["content"], a["tail"], a["prefix"]) != (b["name"], b["content"], b["tail"], b["prefix"]):
        return False
    for f in ("attrs", "extras", "nsmap"):
        if {k: v for k, v in a[f]} != {k: v for k, v in b[f]}:
            return False
    if len(a["kids"]) != len(b["kids"]):
        return False
    return all(deep_eq(x, y) for x, y in zip(a["kids"], b["kids"]))


# ------------------------------------------------------------------ single edits on live nodes
def other(rng, pool, cur):
    c = [x for x in pool if x != cur]
    return rng.choice(c)


def dict_edit(rng, get, put, pool=None):
    """returns a list of (kind, thunk) applicable to the dict obtained by get(): add, remove,
    change, rekey on a random entry, and remove/change/rekey once more on a None-valued entry
    when there is one (None versus "missing" is the classic confusion)."""
    d = get()
    eds = []
    free = [k for k in (KEYS if pool is None else pool) if k not in d]
    if free:
        k0 = rng.choice(free)
        v0 = rng.choice(VALS)
        eds.append(("add", lambda: put(fresh(k0), fresh(v0))))

    def on_entry(suffix, key):
        eds.append(("remove" + suffix, lambda: d.pop(key)))
        v2 = other(rng, VALS, d[key])
        eds.append(("change" + suffix, lambda: put(key, fresh(v2))))
        if free:
            k4 = rng.choice(free)
            v4 = d[key] if rng.random() < 0.5 else rng.choice(VALS)

            def rekey():
                d.pop(key)
                put(fresh(k4), fresh(v4))
            eds.append(("rekey" + suffix, rekey))
    if d:
        on_entry("", rng.choice(list(d)))
        nones = [k for k, v in d.items() if v is None]
        if nones:
            on_entry("-of-none", rng.choice(nones))
    return eds


def edits_for(rng, node, is_root):
    from metapype.model.node import Node
    eds = []
    eds.append(("name", lambda: setattr(node, "name", fresh(other(rng, NAMES + ["zz"], node.name)))))
    eds.append(("content", lambda: setattr(node, "content", fresh(other(rng, TEXTS, node.content)))))
    eds.append(("tail", lambda: setattr(node, "tail", fresh(other(rng, TEXTS, node.tail)))))
    eds.append(("prefix", lambda: setattr(node, "prefix", fresh(other(rng, PREFIXES, node.prefix)))))
    eds.append(("id", lambda: setattr(node, "_id", node.id + "-other")))
    # half through the API, half by writing into the exposed dict (node.attributes[k] = v)
    put_a = node.add_attribute if rng.random() < 0.5 else (lambda k, v: node.attributes.__setitem__(k, v))
    put_e = node.add_extras if rng.random() < 0.5 else (lambda k, v: node.extras.__setitem__(k, v))
    for kind, th in dict_edit(rng, lambda: node.attributes, put_a):
        eds.append(("attrs-" + kind, th))
    for kind, th in dict_edit(rng, lambda: node.extras, put_e):
        eds.append(("extras-" + kind, th))
    for kind, th in dict_edit(rng, lambda: node.nsmap, lambda k, v: node.nsmap.__setitem__(k, v), NSKEYS):
        eds.append(("nsmap-" + kind, th))
    n = len(node.children)

    def add_child():
        c = Node(fresh(rng.choice(NAMES)), id=node.id + "-new", content=fresh(rng.choice(TEXTS)))
        c.parent = node
        node.children.insert(rng.randint(0, n), c)
    eds.append(("child-add", add_child))
    if n:
        eds.append(("child-remove", lambda: node.children.pop(rng.randrange(n))))
    if n >= 2:
        def swap():
            i = rng.randrange(n - 1)
            node.children[i], node.children[i + 1] = node.children[i + 1], node.children[i]
        eds.append(("child-swap", swap))
    return eds


# ------------------------------------------------------------------ Coq literals
NONE_VALUE = "[0; 78; 111; 110; 101]%N"    # a dict value None, injected into pystr as "\\0None" (no generated string starts with NUL)


def coq_val(v):
    return NONE_VALUE if v is None else common.cstr(v)


def coq_dict(d):
    return clist(common.cpair(coq_val(k), coq_val(v)) for k, v in d)      # a None KEY (default namespace) is injected the same way


def coq_otree(node, objmap):
    o = objmap.setdefault(id(node), len(objmap))
    nd = ("{| n_id := " + common.cstr(node.id) + "; n_name := " + common.cstr(node.name) +
          "; n_content := " + common.copt(node.content) + "; n_tail := " + common.copt(node.tail) +
          "; n_prefix := " + common.copt(node.prefix) + "; n_attrs := " + coq_dict(node.attributes.items()) +
          "; n_extras := " + coq_dict(node.extras.items()) + "; n_nsmap := " + coq_dict(node.nsmap.items()) + " |}")
    return "(OT " + cnat(o) + " " + nd + " " + clist(coq_otree(c, objmap) for c in node.children) + ")"


def observe(a, b):
    from metapype.model.node import Node
    out = []
    for x, y in ((a, b), (b, a)):
        try:
            r = Node.is_equal(x, y)
            out.append(r if isinstance(r, bool) else "non-bool:" + repr(r))
        except Exception as e:                     # the property says it answers; an exception is a failure
            out.append("raised:" + type(e).__name__)
    return out


class Collector:
    def __init__(self, ctx):
        self.ctx = ctx
        self.pairs = []     # (coq literal pair, want literal, meta)

    def add(self, kind, a, b, distinct, sig, expected=None, recipe=None):
        ctx = self.ctx
        cls = {}
        sa, sb = snap_sh(a, cls), snap_sh(b, cls)
        obs = observe(a, b)
        again = observe(a, b)
        if again != obs:
            ctx.fail("C18:history:repeat", f"the same call on the same objects answers {obs} and then {again}",
                     {"kind": "impl-vs-statement", "case_kind": kind, "a": sa, "b": sb, "observed": [obs, again]})
        if distinct:
            dd = {}
            fresh = observe(build_sh(sa, dd), build_sh(sb, dd))
            if fresh != obs:
                ctx.fail("C18:history:" + kind.split(":")[0],
                         f"is_equal answers {obs} on objects with a history ({kind}) but {fresh} on freshly built identical trees",
                         {"kind": "impl-vs-statement", "case_kind": kind, "a": sa, "b": sb, "observed": obs,
                          "observed_on_fresh_trees": fresh, "expected": deep_eq(sa, sb) if distinct else None,
                          "note": "the answer depends on earlier calls / earlier states of the same objects"})
        objmap = {}
        lit = "(" + coq_otree(a, objmap) + ", " + coq_otree(b, objmap) + ")"
        meta = {"kind": kind, "a": sa, "b": sb, "observed": obs, "distinct_trees": distinct}
        if recipe is not None:
            meta["recipe"] = recipe
        ctx.case(sig, True)
        ctx.count(kind)
        if distinct:
            exp = deep_eq(sa, sb) if expected is None else expected
            meta["expected"] = exp
            ctx.count("expected_" + ("equal" if exp else "unequal"))
            if obs != [exp, exp]:
                what = (f"Node.is_equal answers {obs[0]} / {obs[1]} (both argument orders) on two distinct trees that "
                        f"{'agree in every field and child' if exp else 'differ (' + kind + ')'}")
                if kind.startswith("equal-copy"):
                    what = (f"Node.is_equal answers {obs[0]} / {obs[1]} (both argument orders) on a tree and its unedited copy(); "
                            f"field by field they {'agree' if deep_eq(sa, sb) else 'DIFFER (the copy is not faithful)'}")
                ctx.fail("C18:" + kind, what, {"kind": "impl-vs-statement", **meta})
        elif any(o is not False for o in obs):
            # not covered by the statement (same object involved); recorded for the model only
            ctx.count("shared_object_answered_true")
        if all(isinstance(o, bool) for o in obs):
            want = "(" + common.cbool(obs[0]) + ", " + common.cbool(obs[1]) + ")"
            self.pairs.append((lit, want, meta))
        ctx.sample({"kind": kind, "observed": obs, "a_nodes": count(sa), "b_nodes": count(sb)}, limit=6)


def gen_cases(ctx, col, ntrees, max_nodes, per_node_edits):
    from metapype.model.node import Node
    rng = ctx.rng
    for ti in range(ntrees):
        base = rand_tree(rng, rng.randint(2, max_nodes))
        style = "library" if rng.random() < 0.5 else "direct"
        plan = rand_ns_plan(rng, count(base))
        ctx.count("build-style-" + style)

        def mk(tag, snap=None):
            s = fresh_snap(with_ids(base if snap is None else snap, tag))
            return lib_build(s, plan) if style == "library" else NL.build(s, attach=False)
        # equal pairs
        NL.reset_store()
        a = mk("a")
        sa = NL.snapshot(a)                      # the effective fields (library style decides the nsmaps)
        b = mk("b")
        col.add("equal-independent", a, b, True, (ti, "eq"))
        c = mk("c", shuffled_dicts(base, rng))
        col.add("equal-dict-order", a, c, True, (ti, "eqo"))
        # the statement itself: a deep copy compares equal to its original (both orders), whatever shape
        # the namespace maps have (non-closed maps, default-namespace keys, shared dicts)
        col.add("equal-copy", a, a.copy(), True, (ti, "copy"), expected=True)
        col.add("equal-copy-of-copy", a, a.copy().copy(), True, (ti, "copy2"), expected=True)
        col.add("same-object", a, a, False, (ti, "same"))
        # two DISTINCT trees whose corresponding nodes carry the same Node.id
        col.add("equal-same-ids", a, mk("a"), True, (ti, "sameids"))
        j1, j2 = json_twins(ctx, a)
        if j1 is not None:
            col.add("equal-from-json-twice", j1, j2, True, (ti, "json2"))
            col.add("original-vs-from-json", a, j1, True, (ti, "json1"))
        # a pair sharing one child object
        if a.children:
            d = mk("d")
            i = rng.randrange(len(a.children))
            d.children[i] = a.children[i]
            col.add("shared-child-object", a, d, False, (ti, "shared"))
        nn = count(sa)
        for ni in range(nn):
            NL.reset_store()
            probe = NL.build(sa, attach=False)
            kinds = [k for k, _ in edits_for(rng, nodes_preorder(probe)[ni], ni == 0)]
            if per_node_edits is not None and len(kinds) > per_node_edits:
                kinds = rng.sample(kinds, per_node_edits)
            for kind in kinds:
                NL.reset_store()
                a = mk("a")
                how = rng.choice(["copy", "copy", "twin", "same-id-twin", "from-json"])
                if how == "copy":
                    b = a.copy()
                elif how == "twin":
                    b = mk("b")
                elif how == "same-id-twin":
                    b = mk("a")
                else:
                    b, _ = json_twins(ctx, a)
                    if b is None:
                        how, b = "copy", a.copy()
                side = rng.choice(["second", "first"])
                edited, other_tree = (b, a) if side == "second" else (a, b)
                target = nodes_preorder(edited)[ni]
                avail = dict(edits_for(rng, target, ni == 0))
                if kind not in avail:
                    continue
                # the pair is compared BEFORE the edit, then one of them is edited in place and the
                # SAME objects are compared again
                before = observe(a, b)
                exp_before = True if how == "copy" else deep_eq(NL.snapshot(a), NL.snapshot(b))
                if before != [exp_before, exp_before]:
                    ctx.fail("C18:pre-edit:" + how, f"a tree and its {how} compare {before} before any edit; field by field they "
                             f"{'agree' if exp_before else 'differ'}",
                             {"kind": "equal-copy" if how == "copy" else "pre-edit:" + how, "a": snap_sh(a), "b": snap_sh(b),
                              "observed": before, "expected": exp_before})
                other_before = NL.snapshot(other_tree)
                base_a = snap_sh(a)
                avail[kind]()
                tn = NL.snapshot(target)
                recipe = {"base_a": base_a, "relation": how, "edited_argument": side, "target_preorder_index": ni, "edit": kind,
                          "target_fields_after": {k: tn[k] for k in ("name", "content", "tail", "prefix", "attrs", "extras", "nsmap")}}
                ctx.count("edit-via-" + how)
                ctx.count("edit-on-%s-argument" % side)
                ctx.count("depth-of-edit=%d" % depth_of(target))
                # what the statement expects: the UNTOUCHED tree as it was, against the edited one
                exp = deep_eq(other_before, NL.snapshot(edited))
                if NL.snapshot(other_tree) != other_before:
                    ctx.fail("C18:edit-leaks:" + how, f"editing one tree ({kind}, in place) changed the other one, which is its {how}",
                             {"kind": "impl-vs-statement", "edit": kind, "edited_argument": side, "relation": how, "recipe": recipe,
                              "other_before": other_before, "other_after": NL.snapshot(other_tree), "a": snap_sh(a), "b": snap_sh(b)})
                col.add("edit:" + kind, a, b, True, (ti, ni, kind, side, how), expected=exp, recipe=recipe)
    NL.reset_store()


def json_twins(ctx, a):
    """the same JSON document loaded twice: two distinct trees with identical ids"""
    from metapype.model import metapype_io
    try:
        doc = metapype_io.to_json(a)
        return metapype_io.from_json(doc), metapype_io.from_json(fresh(doc))
    except Exception as e:           # the JSON codec is C06's; count and go on
        ctx.count("json-twin-unavailable:" + type(e).__name__)
        return None, None


def depth_of(n):
    d = 0
    while n.parent is not None:
        n = n.parent
        d += 1
    return d


def run(ctx):
    built = ctx.build(extra_targets=["theories/Model/EqualRun.v"])
    thorough = ctx.tier == "thorough"
    ctx.extra["rule"] = ("random trees (<= %d nodes, depth <= 3, 3 names, dict keys from 4, values from 5 incl. non-ASCII); per tree: "
                         "independent twin, twin with shuffled dict orders, Node.copy(), same object, shared child object; per node "
                         "%s single-edit kinds (name, content, tail, prefix, id, attrs/extras/nsmap key add/remove/change/rekey (values may be None), child "
                         "add/remove/adjacent swap) on either side of a twin or a copy; both argument orders; non-trivial = distinct "
                         "(tree, node, edit kind, side, via copy)") % (10 if thorough else 7, "all" if thorough else "9 sampled of the")
    col = Collector(ctx)
    gen_cases(ctx, col, 160 if thorough else 45, 10 if thorough else 7, None if thorough else 9)
    # (B) correspondence inside Coq
    pairs = col.pairs
    shard = 150
    jobs = []
    for i in range(0, len(pairs), shard):
        cs = [p[0] for p in pairs[i:i + shard]]
        ws = [p[1] for p in pairs[i:i + shard]]
        text = (HEADER + "Definition cases : list (otree * otree) := " + clist(cs) + ".\n" +
                "Definition want : list (bool * bool) := " + clist(ws) + ".\n" +
                "Eval vm_compute in mismatches bb_eqb (map run_eq cases) want.\n")
        jobs.append((f"C18_corr_{i // shard}", text))
    res = common.coq_eval_many(jobs)
    bad = []
    for k, (rc, out) in enumerate(res):
        vals = common.parse_eval_values(out) if rc == 0 else []
        if rc != 0 or len(vals) != 1:
            ctx.fail("corr:coq-error", f"case file {jobs[k][0]} did not evaluate",
                     {"kind": "broken-correspondence", "file": jobs[k][0], "output": out[-1500:]}, concrete=False)
            continue
        bad.extend(k * shard + j for j in common.parse_nat_list(vals[0]))
    ctx.extra["traces_validated_against_impl"] = len(pairs) - len(bad)
    for i in bad[:5]:
        lit, want, meta = pairs[i]
        rc, out = common.coq_eval("C18_corr_show", HEADER + f"Eval vm_compute in run_eq {lit}.\n")
        ctx.fail("corr:C18:" + meta["kind"], "model (Model/Equal.v is_equal) and Node.is_equal disagree",
                 {"kind": "broken-correspondence", "theorem": "C18_iff (model/implementation correspondence)",
                  "case": meta, "model": " ".join(out.split())[:500]}, concrete=False)
    if not built:
        ctx.obligations_failed("every single-field edit of every node of the generated trees, equal twins and copies, "
                               "against an independent deep comparison")


def run_recipe(rc):
    """Rebuild the original, derive the other tree the recorded way, redo the recorded in-place edit
    of one node (field edits only; child edits are replayed from the snapshots)."""
    from metapype.model import metapype_io
    NL.reset_store()
    a = build_sh(rc["base_a"], {})
    how = rc["relation"]
    if how == "copy":
        b = a.copy()
    elif how == "from-json":
        b = metapype_io.from_json(metapype_io.to_json(a))
    else:
        b = build_sh(rc["base_a"], {})
    edited, other_tree = (b, a) if rc["edited_argument"] == "second" else (a, b)
    other_before = NL.snapshot(other_tree)
    node = nodes_preorder(edited)[rc["target_preorder_index"]]
    f = rc["target_fields_after"]
    node.name, node.content, node.tail, node.prefix = f["name"], f["content"], f["tail"], f["prefix"]
    for field, d in (("attrs", node.attributes), ("extras", node.extras), ("nsmap", node.nsmap)):
        want = {k: v for k, v in f[field]}
        if d != want:
            for k in list(d):
                if k not in want:
                    del d[k]                      # written in place, through the exposed dict
            for k, v in want.items():
                d[k] = v
    return a, b, edited, other_tree, other_before


def replay(ctx, data):
    """Re-run one recorded pair against the implementation."""
    r = data.get("replay", data)
    case = r.get("case", r)
    rc = case.get("recipe")
    if rc is not None and not rc["edit"].startswith("child") and rc["edit"] != "id":
        a, b, edited, other_tree, other_before = run_recipe(rc)
        obs = observe(a, b)
        exp = deep_eq(other_before, NL.snapshot(edited))
        leaked = NL.snapshot(other_tree) != other_before
        print("recipe:", rc["relation"], rc["edit"], "on the", rc["edited_argument"], "argument; observed", obs, "expected", exp,
              "; other tree changed:", leaked)
        if leaked:
            ctx.fail("C18:edit-leaks:" + rc["relation"], "editing one tree in place changed the other one", {"kind": "impl-vs-statement", **case})
        if obs != [exp, exp]:
            ctx.fail("C18:edit:" + rc["edit"], f"Node.is_equal answers {obs}, the statement expects {exp}", {"kind": "impl-vs-statement", **case})
        return
    if "a" not in case:
        print("nothing to replay against the implementation:", r.get("kind"))
        return
    NL.reset_store()
    dd = {}
    a = build_sh(case["a"], dd)
    if case.get("kind") == "same-object":
        b = a
    elif str(case.get("kind", "")).startswith("equal-copy"):
        b = a.copy().copy() if case["kind"].endswith("of-copy") else a.copy()      # the original rebuilt, copied again
    else:
        b = build_sh(case["b"], dd)
    obs = observe(a, b)
    exp = case["expected"] if isinstance(case.get("expected"), bool) else deep_eq(case["a"], case["b"])
    print("observed", obs, "expected (distinct trees)", exp)
    if case.get("distinct_trees", True) and obs != [exp, exp]:
        ctx.fail("C18:" + case.get("kind", "replay"), f"Node.is_equal answers {obs}, the trees {'agree' if exp else 'differ'}",
                 {"kind": "impl-vs-statement", **case})

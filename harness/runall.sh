#!/bin/sh
# Run every claimed check (quick by default) and print a summary table.
cd "$(dirname "$0")/.."
TIER=${1:-quick}
for p in $(python3 -c "import json;print(' '.join(c['property_id'] for c in json.load(open('MANIFEST.json'))['checks']))"); do
  s=$(date +%s)
  out=$(./check $p --tier $TIER 2>&1); rc=$?
  e=$(date +%s)
  echo "$p exit=$rc $((e-s))s $(echo "$out" | grep -c '^VIOLATION') violations $(echo "$out" | grep -c '^KNOWN-FINDING') known"
  echo "$out" | grep -E '^(VIOLATION|KNOWN-FINDING)' | head -5
done

"""C09 — edit histories keep an ordered tree; queries observe exactly that tree.

Universe: n node objects with fixed names.  A *state* is (children ids per node, parent id per
node, registered flag per node).  Operations: add_child (append / insert at index), remove_child,
replace_child (delete_old both ways), shift (LEFT/RIGHT x sib), remove_children.

Exploration: (1) exhaustive breadth-first over every state reachable within `depth` edits of the
all-detached forest of 4 nodes / 2 names, applying EVERY operation (respecting the proviso, but
including every failing one) to every distinct reached state; (2) random histories of length
40-60 over 10-12 nodes.  After every step:
 (S) statement search — against a plain-Python ordered-list model written from the property text
     (independent of the Coq model): child lists, "every listed child's parent is the lister",
     failing edit leaves nodelib.deep_state unchanged, shift returns the child's actual index and
     never fails on a listed child; all queries against their reading off the ordered tree;
      every random / directed history is run once more on ONE set of long-lived objects with the
     queries called between the edits (history sensitivity), and must give the same states;
 (B) correspondence — Model/Edits.v [exec]/queries evaluated inside Coq on the same transitions:
     children ids, parent ids, registry flags, return value, exception class."""
import itertools

from harness import common
from harness import nodelib as NL
from harness.common import clist

HEADER = "From MP Require Import Model.EditsRun.\n"
NAME_STR = ["alpha", "beta"]      # more than one character: single-character strings are singletons in CPython


def fresh(s):
    """a NEW str object equal to s (never a shared literal): `is`-for-`==` slips must show"""
    r = "".join(list(s))
    assert r == s and (len(s) < 2 or r is not s)
    return r

EXH_IDX = [None, 0, 1, -1]
RAND_IDX = [None, None, None, 0, 1, 2, 3, -1, -2, -3, 7, -7]


# ------------------------------------------------------------------ implementation side
def mk_objects(names, state):
    """Fresh implementation objects in exactly the given state (fields set directly)."""
    from metapype.model.node import Node
    NL.reset_store()
    kids, parents, reg = state
    objs = [Node(fresh(NAME_STR[names[i]]), id=fresh(f"n{i}")) for i in range(len(names))]
    for i, o in enumerate(objs):
        o._children = [objs[c] for c in kids[i]]
        o._parent = None if parents[i] is None else objs[parents[i]]
        if not reg[i]:
            del Node.store[o.id]
    return objs


def observe(objs):
    from metapype.model.node import Node
    idx = {id(o): i for i, o in enumerate(objs)}
    kids = tuple(tuple(idx[id(c)] for c in o.children) for o in objs)
    parents = tuple(None if o.parent is None else idx[id(o.parent)] for o in objs)
    reg = tuple(Node.store.get(o.id) is o for o in objs)
    return (kids, parents, reg)


def apply_impl(objs, op):
    from metapype.model.node import Shift
    try:
        k = op[0]
        if k == "add":
            r = objs[op[1]].add_child(objs[op[2]]) if op[3] is None else objs[op[1]].add_child(objs[op[2]], op[3])
        elif k == "remove":
            r = objs[op[1]].remove_child(objs[op[2]])
        elif k == "replace":
            r = objs[op[1]].replace_child(objs[op[2]], objs[op[3]], op[4])
        elif k == "shift":
            r = objs[op[1]].shift(objs[op[2]], Shift.LEFT if op[3] == "L" else Shift.RIGHT, op[4])
        elif k == "clear":
            r = objs[op[1]].remove_children()
        else:
            raise AssertionError(op)
    except Exception as e:
        return ("raise", type(e).__name__)
    if r is None:
        return ("none",)
    if isinstance(r, int) and not isinstance(r, bool):
        return ("int", r)
    return ("other", repr(r))


# ------------------------------------------------------------------ the ordered tree (from child lists only)
def lister(kids, c):
    return [p for p in range(len(kids)) if c in kids[p]]


def subtree(kids, r):
    out, todo = [], [r]
    while todo:
        x = todo.pop()
        if x in out:
            continue
        out.append(x)
        todo.extend(kids[x])
    return out


def proviso(names, state, op, dead_ok=False):
    """The property's proviso, read off the state: a node being attached is a detached root,
    distinct from and not an ancestor of the target; discarded (unregistered) nodes are dead.
    Operations that fail before changing anything need no proviso."""
    kids, parents, reg = state
    operands = [x for x in op[1:4] if isinstance(x, int) and not isinstance(x, bool)] if op[0] != "add" else [op[1], op[2]]
    if op[0] == "shift":
        operands = [op[1], op[2]]
    if not dead_ok and any(not reg[x] for x in operands):
        return False
    if op[0] == "add":
        p, c = op[1], op[2]
        return not lister(kids, c) and c != p and p not in subtree(kids, c)
    if op[0] == "replace":
        p, old, new, dele = op[1:5]
        if names[new] != names[old] or old not in kids[p]:
            return True         # fails, changes nothing
        if lister(kids, new) or new == p or p in subtree(kids, new):
            return False
        if dele and any(not reg[x] for x in subtree(kids, old)):
            return False
        return True
    return True


def all_ops(n, idxs):
    ops = []
    for p in range(n):
        for c in range(n):
            for ix in idxs:
                ops.append(("add", p, c, ix))
            ops.append(("remove", p, c))
            for d in "LR":
                for sib in (True, False):
                    ops.append(("shift", p, c, d, sib))
            for new in range(n):
                for dele in (False, True):
                    ops.append(("replace", p, c, new, dele))
        ops.append(("clear", p))
    return ops


# ------------------------------------------------------------------ (S) plain-Python ordered-list model, from the property text
def list_model(names, kids, op):
    """Predict (new child lists, expected return) or 'fail' from the child lists alone.
    expected return: None, or an int for shift."""
    kids = [list(k) for k in kids]
    k = op[0]
    if k == "add":
        p, c, ix = op[1:4]
        l = kids[p]
        if ix is None:
            pos = len(l)
        elif ix < 0:
            pos = max(0, len(l) + ix)
        else:
            pos = min(ix, len(l))
        kids[p] = l[:pos] + [c] + l[pos:]
        return kids, None
    if k == "remove":
        p, c = op[1:3]
        l = kids[p]
        if c not in l:
            return "fail"
        i = min(j for j, x in enumerate(l) if x == c)
        kids[p] = l[:i] + l[i + 1:]
        return kids, None
    if k == "replace":
        p, old, new = op[1:4]
        l = kids[p]
        if names[old] != names[new] or old not in l:
            return "fail"
        i = min(j for j, x in enumerate(l) if x == old)
        kids[p] = l[:i] + [new] + l[i + 1:]
        return kids, None
    if k == "shift":
        p, c, d, sib = op[1:5]
        l = kids[p]
        if c not in l:
            return "fail"
        i = min(j for j, x in enumerate(l) if x == c)
        if d == "L":
            cand = [j for j in range(i) if (not sib) or names[l[j]] == names[c]]
            j = max(cand) if cand else None
        else:
            cand = [j for j in range(i + 1, len(l)) if (not sib) or names[l[j]] == names[c]]
            j = min(cand) if cand else None
        if j is None:
            return kids, i
        m = list(l)
        m[i], m[j] = l[j], l[i]
        kids[p] = m
        return kids, j
    if k == "clear":
        kids[op[1]] = []
        return kids, None
    raise AssertionError(op)


def preorder(kids, r):
    out = [r]
    for c in kids[r]:
        out.extend(preorder(kids, c))
    return out


def q_expected(names, kids, nnames, paths, n):
    """Every query's answer read off the ordered tree (child lists only). Flat list, fixed order."""
    out = []
    for i in range(n):
        desc = preorder(kids, i)[1:]
        for nm in range(nnames):
            ch = [c for c in kids[i] if names[c] == nm]
            ds = [c for c in desc if names[c] == nm]
            out.append(ch[:1])              # find_child
            out.append(ch)                  # find_all_children
            out.append(ds[:1])              # find_descendant
            out.append([i] + ds)            # find_all_descendants, appended to a caller's list holding the node
        for path in paths:
            cur = [i]
            first = [i]
            for nm in path:
                cur = [c for x in cur for c in kids[x] if names[c] == nm]
                first = [c for x in first for c in kids[x] if names[c] == nm][:1]
            out.append(first if path else [])     # find_single_node_by_path
            out.append(cur if path else [])       # find_all_nodes_by_path
        # ancestry: the chain of listers from the root of the ordered tree down to the node
        chain = [i]
        while lister(kids, chain[0]):
            chain.insert(0, lister(kids, chain[0])[0])
        out.append(chain)
        for c in range(n):
            out.append([kids[i].index(c)] if c in kids[i] else [])   # child_index
    return out


def parent_chain_terminates(parents, i):
    seen = set()
    while i is not None:
        if i in seen:
            return False
        seen.add(i)
        i = parents[i]
    return True


def q_observed(objs, nnames, paths, state):
    """The implementation's answers, same order. 'LOOP' where get_ancestry would not terminate."""
    idx = {id(o): i for i, o in enumerate(objs)}

    def one(x):
        return [] if x is None else [idx[id(x)]]

    def many(xs):
        return [idx[id(x)] for x in xs]
    out = []
    for i, o in enumerate(objs):
        for nm in range(nnames):
            out.append(one(o.find_child(fresh(NAME_STR[nm]))))
            out.append(many(o.find_all_children(fresh(NAME_STR[nm]))))
            out.append(one(o.find_descendant(fresh(NAME_STR[nm]))))
            acc = [o]
            r = o.find_all_descendants(fresh(NAME_STR[nm]), acc)
            out.append(many(acc) if r is None else ["returned", repr(r)])
        for path in paths:
            out.append(one(o.find_single_node_by_path([fresh(NAME_STR[x]) for x in path])))
            out.append(many(o.find_all_nodes_by_path([fresh(NAME_STR[x]) for x in path])))
        out.append(many(o.get_ancestry()) if parent_chain_terminates(state[1], i) else "LOOP")
        for c in objs:
            ci = o.child_index(c)
            out.append([] if ci is None else [ci])
    return out


Q_LABELS_PER_NAME = ["find_child", "find_all_children", "find_descendant", "find_all_descendants"]


def q_label(k, n, nnames, paths):
    per = nnames * 4 + len(paths) * 2 + 1 + n
    i, r = divmod(k, per)
    if r < nnames * 4:
        return f"node {i}: {Q_LABELS_PER_NAME[r % 4]}({NAME_STR[r // 4]!r})"
    r -= nnames * 4
    if r < len(paths) * 2:
        return f"node {i}: {'find_single_node_by_path' if r % 2 == 0 else 'find_all_nodes_by_path'}({[NAME_STR[x] for x in paths[r // 2]]})"
    r -= len(paths) * 2
    if r == 0:
        return f"node {i}: get_ancestry()"
    return f"node {i}: child_index(node {r - 1})"


# ------------------------------------------------------------------ Coq literals
def c_nat(i):
    return str(i)


def c_natlist(l):
    return "[" + ";".join(str(x) for x in l) + "]"


def c_state(names, state):
    kids, parents, reg = state
    return ("(mk " + clist(c_natlist(k) for k in kids) + " " +
            clist("None" if p is None else f"Some {p}" for p in parents) + " " + c_natlist(names) + " " +
            clist("true" if r else "false" for r in reg) + ")")


def c_op(op):
    k = op[0]
    if k == "add":
        ix = "None" if op[3] is None else f"(Some ({op[3]})%Z)"
        return f"AddChild {op[1]} {op[2]} {ix}"
    if k == "remove":
        return f"RemoveChild {op[1]} {op[2]}"
    if k == "replace":
        return f"ReplaceChild {op[1]} {op[2]} {op[3]} {'true' if op[4] else 'false'}"
    if k == "shift":
        return f"Shift {op[1]} {op[2]} {'LEFT' if op[3] == 'L' else 'RIGHT'} {'true' if op[4] else 'false'}"
    return f"RemoveChildren {op[1]}"


def c_ret(r):
    if r[0] == "none":
        return "RNone"
    if r[0] == "int":
        return f"(RInt {r[1]})"
    if r[0] == "raise" and r[1] in ("ValueError", "IndexError", "KeyError", "AttributeError"):
        return f"(Raise {r[1]})"
    return None


def c_obs(state, ret):
    kids, parents, reg = state
    rows = clist("(" + c_natlist(kids[i]) + ", " + ("None" if parents[i] is None else f"Some {parents[i]}") + ", " +
                 ("true" if reg[i] else "false") + ")" for i in range(len(kids)))
    return "(" + rows + ", " + c_ret(ret) + ")"


def c_q(ans):
    return "None" if ans == "LOOP" else "(Some " + c_natlist(ans) + ")"


# ------------------------------------------------------------------ checking one transition (S)
class Checker:
    def __init__(self, ctx, names, nnames, paths):
        self.ctx = ctx
        self.names = names
        self.nnames = nnames
        self.paths = paths
        self.n = len(names)

    def step(self, state, op, history):
        """Apply op to a fresh copy of `state`; run the statement checks; return (state', ret)."""
        ctx, names = self.ctx, self.names
        objs = mk_objects(names, state)
        before = NL.deep_state(objs)
        ret = apply_impl(objs, op)
        after_state = observe(objs)
        kind = op[0] + ("" if op[0] != "shift" else ("-" + op[3] + ("-sib" if op[4] else "-pos")))
        rep = {"kind": "impl-vs-statement", "names": [NAME_STR[x] for x in names], "history_from_all_detached": history,
               "state_before": state, "op": op, "observed_return": ret, "state_after": after_state}
        pred = list_model(names, state[0], op)
        ctx.count(kind + (":fails" if pred == "fail" else ""))
        if ret[0] == "raise":
            if NL.deep_state(objs) != before:
                ctx.fail(f"C09:fail-changed:{kind}", f"{op} raised {ret[1]} and left the forest modified", rep)
            if pred != "fail":
                what = (f"shift raised {ret[1]} on a listed child" if op[0] == "shift"
                        else f"{op} raised {ret[1]}; the ordered-list model predicts success")
                ctx.fail(f"C09:spurious-failure:{kind}", what, {**rep, "predicted": pred})
        else:
            if pred == "fail":
                ctx.fail(f"C09:missing-failure:{kind}", f"{op} did not fail although the operand is not a listed child / the names differ",
                         {**rep, "predicted": "fail"})
            else:
                pk, pr = pred
                if [list(k) for k in after_state[0]] != pk:
                    ctx.fail(f"C09:list:{kind}", f"child lists after {op} are not what the ordered-list model predicts",
                             {**rep, "predicted_children": pk})
                if op[0] == "shift":
                    l = after_state[0][op[1]]
                    if ret[0] != "int" or ret[1] >= len(l) or l[ret[1]] != op[2]:
                        ctx.fail(f"C09:shift-return:{kind}", f"shift returned {ret} but the child now sits at {l.index(op[2]) if op[2] in l else None}",
                                 {**rep, "predicted_return": pr})
                    elif ret[1] != pr:
                        ctx.fail(f"C09:shift-return:{kind}", f"shift returned {ret}, the list model predicts {pr}", {**rep, "predicted_return": pr})
                elif ret != ("none",):
                    ctx.fail(f"C09:return:{kind}", f"{op} returned {ret}", rep)
        for p in range(self.n):
            for c in after_state[0][p]:
                if after_state[1][c] != p:
                    ctx.fail(f"C09:parent:{kind}", f"after {op} node {c} is listed by node {p} but its parent link names {after_state[1][c]}", rep)
        return after_state, ret

    def queries(self, state, history):
        ctx = self.ctx
        objs = mk_objects(self.names, state)
        before = NL.deep_state(objs)
        obs = q_observed(objs, self.nnames, self.paths, state)
        exp = q_expected(self.names, state[0], self.nnames, self.paths, self.n)
        if NL.deep_state(objs) != before:
            ctx.fail("C09:query-mutates", "a query modified the forest", {"kind": "impl-vs-statement", "state": state, "history_from_all_detached": history})
        for k, (o, e) in enumerate(zip(obs, exp)):
            if o != e:
                lab = q_label(k, self.n, self.nnames, self.paths)
                qn = lab.split(": ")[1].split("(")[0]
                key = f"C09:query:{qn}"
                ctx.fail(key, f"{lab} answers {o}; the ordered tree implies {e}",
                         {"kind": "impl-vs-statement", "names": [NAME_STR[x] for x in self.names], "history_from_all_detached": history,
                          "state": state, "query": lab, "observed": o, "expected": e})
        return obs


def initial_state(n):
    return (tuple(() for _ in range(n)), tuple(None for _ in range(n)), tuple(True for _ in range(n)))


# ------------------------------------------------------------------ exploration
def explore(ctx, chk, depth, idxs, state_cap=None):
    """Breadth-first: every operation on every distinct state reachable in < depth edits.
    Returns list of (state, [(op, state', ret)]) and the set of all reached states with one
    shortest history each."""
    names = chk.names
    n = len(names)
    ops = all_ops(n, idxs)
    init = initial_state(n)
    hist = {init: []}
    frontier = [init]
    table = []
    for d in range(depth):
        if not frontier:
            ctx.note(f"names {names}: exploration closed at depth {d}: every reachable state ({len(hist)}) has been expanded")
            break
        nxt = []
        for st in frontier:
            trans = []
            for op in ops:
                if not proviso(names, st, op):
                    ctx.count("skipped-by-proviso")
                    continue
                st2, ret = chk.step(st, op, hist[st] + [op])
                ctx.case(("t", tuple(names), st, op))
                trans.append((op, st2, ret))
                if st2 not in hist:
                    hist[st2] = hist[st] + [op]
                    nxt.append(st2)
            table.append((st, trans))
        ctx.count(f"states-at-depth-{d}", len(frontier))
        frontier = nxt
        if state_cap is not None and len(frontier) > state_cap:
            ctx.rng.shuffle(frontier)
            ctx.note(f"depth {d + 1}: {len(frontier)} new states, continuing from a random {state_cap} of them")
            frontier = frontier[:state_cap]
    ctx.count("states-at-final-depth", len(frontier))
    return table, hist, frontier


# ------------------------------------------------------------------ random histories
def random_history(ctx, chk, length, idx_pool):
    """One random history over chk's universe; returns (ops, [(state', ret)], states)."""
    rng = ctx.rng
    names = chk.names
    n = len(names)
    st = initial_state(n)
    ops, obs = [], []
    tries = 0
    while len(ops) < length and tries < length * 30:
        tries += 1
        kids = st[0]
        listed = [(p, c) for p in range(n) for c in kids[p]]
        r = rng.random()
        if r < 0.34:
            op = ("add", rng.randrange(n), rng.randrange(n), rng.choice(idx_pool))
            if not proviso(names, st, op):
                # steer towards a legal attachment most of the time
                roots = [c for c in range(n) if not lister(kids, c) and st[2][c]]
                if not roots or rng.random() < 0.2:
                    continue
                c = rng.choice(roots)
                cand = [p for p in range(n) if p != c and p not in subtree(kids, c) and st[2][p]]
                if not cand:
                    continue
                op = ("add", rng.choice(cand), c, rng.choice(idx_pool))
        elif r < 0.46:
            op = ("remove",) + (rng.choice(listed) if listed and rng.random() < 0.8 else (rng.randrange(n), rng.randrange(n)))
        elif r < 0.80:
            pc = rng.choice(listed) if listed and rng.random() < 0.85 else (rng.randrange(n), rng.randrange(n))
            op = ("shift",) + pc + (rng.choice("LR"), rng.random() < 0.5)
        elif r < 0.97:
            pc = rng.choice(listed) if listed and rng.random() < 0.8 else (rng.randrange(n), rng.randrange(n))
            roots = [c for c in range(n) if not lister(kids, c)]
            new = rng.choice(roots) if roots and rng.random() < 0.8 else rng.randrange(n)
            op = ("replace",) + pc + (new, rng.random() < 0.15)
        else:
            op = ("clear", rng.randrange(n))
        if not proviso(names, st, op):
            ctx.count("skipped-by-proviso")
            continue
        st2, ret = chk.step(st, op, ops + [op])
        ctx.case(("h", tuple(names), st, op))
        ops.append(op)
        obs.append((st2, ret))
        st = st2
    return ops, obs


def live_pass(ctx, chk, ops, obs, label):
    """History sensitivity: the same history once more on ONE set of long-lived objects (the
    statement checks above rebuild fresh objects for every step), with all queries called
    between the edits; every state and answer must equal what the fresh objects gave."""
    names = chk.names
    objs = mk_objects(names, initial_state(len(names)))
    st = initial_state(len(names))
    for k, op in enumerate(ops):
        if k % 7 == 3:
            q1 = q_observed(objs, chk.nnames, chk.paths, st)
            q2 = q_expected(names, st[0], chk.nnames, chk.paths, chk.n)
            if q1 != q2:
                bad = [i for i, (x, y) in enumerate(zip(q1, q2)) if x != y][0]
                lab = q_label(bad, chk.n, chk.nnames, chk.paths)
                ctx.fail("C09:history:query", f"on long-lived objects, after {k} edits, {lab} answers {q1[bad]}; the ordered tree implies {q2[bad]}",
                         {"kind": "impl-vs-statement", "names": [NAME_STR[x] for x in names], "history_from_all_detached": ops[:k],
                          "query": lab, "observed": q1[bad], "expected": q2[bad], "note": "same objects used for the whole history"})
        ret = apply_impl(objs, op)
        st = observe(objs)
        ctx.count("live-object-steps")
        if (st, ret) != tuple(obs[k]):
            ctx.fail("C09:history:" + op[0], f"step {k} ({op}) on long-lived objects gives {ret} / children {[list(x) for x in st[0]]}, "
                     f"on freshly built objects in the same state {obs[k][1]} / {[list(x) for x in obs[k][0][0]]}",
                     {"kind": "impl-vs-statement", "names": [NAME_STR[x] for x in names], "history_from_all_detached": ops[:k + 1],
                      "observed_on_long_lived_objects": [st, ret], "observed_on_fresh_objects": list(obs[k]),
                      "note": "the result depends on earlier calls on the same objects (" + label + ")"})
            return


# directed histories: regression cases of the fixed defects and one boundary case that is
# outside the claim (model-vs-implementation only)
def directed():
    return [
        ("shift-right-edge", [0, 0, 1, 0], [("add", 0, 1, None), ("add", 0, 2, None), ("add", 0, 3, None),
                                            ("shift", 0, 3, "R", False), ("shift", 0, 1, "R", False), ("shift", 0, 1, "R", True),
                                            ("shift", 0, 2, "L", False), ("shift", 0, 2, "L", True)], True),
        ("replace-fails-parent-untouched", [0, 0, 0, 0], [("add", 0, 1, None), ("replace", 0, 2, 3, False)], True),
        ("ancestry-after-remove", [0, 0, 1, 0], [("add", 0, 1, None), ("add", 1, 2, None), ("remove", 0, 1)], True),
        ("ancestry-no-cycle-through-stale-link", [0, 0, 1, 0], [("add", 0, 1, None), ("remove", 0, 1), ("add", 1, 0, None)], True),
        ("ancestry-after-clear-and-replace", [0, 0, 1, 0], [("add", 0, 1, None), ("add", 1, 2, None), ("replace", 0, 1, 3, False),
                                                            ("add", 3, 1, 0), ("clear", 3)], True),
        # outside the claim: a node discarded by replace_child(delete_old=True) is used again
        ("outside-claim:discarded-node-reused", [0, 0, 0, 0], [("add", 0, 1, None), ("replace", 0, 1, 2, True), ("add", 0, 1, None),
                                                              ("replace", 0, 1, 3, True)], False),
    ]


def big_siblings(ctx, nnames):
    """One sibling list with more than 256 children (indices past CPython's small-int cache):
    shifts, inserts, removals, replacements around positions 255-258 and at both ends, and all
    queries on that state.  Returns (names, state, transitions) for the Coq side."""
    rng = ctx.rng
    nkids = 300
    n = nkids + 3                       # node 0 lists 1..300; 301, 302 detached spares
    names = [0] + [0 if rng.random() < 0.7 else 1 for _ in range(nkids)] + [0, 1]
    order = list(range(1, nkids + 1))
    rng.shuffle(order)
    kids = [tuple(order)] + [()] * (n - 1)
    parents = [None] + [0] * nkids + [None, None]
    st = (tuple(kids), tuple(parents), tuple(True for _ in range(n)))
    chk = Checker(ctx, names, nnames, [[], [0], [1]])
    spots = [0, 1, 127, 128, 254, 255, 256, 257, 258, 298, 299]
    ops = []
    for pos_ in spots:
        c = order[pos_]
        for d in "LR":
            for sib in (True, False):
                ops.append(("shift", 0, c, d, sib))
    for ix in (255, 256, 257, 258, 300, 301, -1, -43, -44, -45, -300, -301):
        ops.append(("add", 0, 301, ix))
    for pos_ in (255, 256, 257, 299):
        ops.append(("remove", 0, order[pos_]))
        spare = 301 if names[order[pos_]] == 0 else 302
        ops.append(("replace", 0, order[pos_], spare, False))
    ops.append(("clear", 0))
    trans = []
    for op in ops:
        st2, ret = chk.step(st, op, [["(state: node 0 lists 300 children)"], list(op)])
        ctx.case(("big", op))
        trans.append((op, st2, ret))
    ctx.count("big-sibling-list-transitions", len(trans))
    chk.queries(st, [["(state: node 0 lists 300 children)"]])
    return names, st, trans


def run_directed(ctx, name, names, ops, in_claim, nnames, paths):
    """Returns (ops, obs) for the Coq side; statement checks only when in the claim."""
    st = initial_state(len(names))
    chk = Checker(ctx, names, nnames, paths)
    obs = []
    for k, op in enumerate(ops):
        if in_claim:
            st2, ret = chk.step(st, op, ops[:k + 1])
        else:
            objs = mk_objects(names, st)
            ret = apply_impl(objs, op)
            st2 = observe(objs)
        ctx.case(("d", name, k))
        obs.append((st2, ret))
        st = st2
    if in_claim:
        chk.queries(st, ops)
        live_pass(ctx, chk, ops, obs, name)
    return obs


# ------------------------------------------------------------------ Coq jobs
def job_ops(name, names, state, trans):
    n = len(names)
    return (name, HEADER + f"Definition s0 := {c_state(names, state)}.\n" +
            "Definition ops := " + clist(c_op(op) for op, _, _ in trans) + ".\n" +
            "Definition want : list obs := " + clist(c_obs(s2, r) for _, s2, r in trans) + ".\n" +
            f"Eval vm_compute in mismatches obs_eqb (run_ops {n} s0 ops) want.\n")


def run(ctx):
    built = ctx.build(extra_targets=["theories/Model/EditsRun.v"])
    thorough = ctx.tier == "thorough"
    nnames = 2
    paths_small = [[], [0], [1], [0, 0], [0, 1], [1, 0], [1, 1]]
    paths_big = paths_small + [list(p) for p in itertools.product(range(2), repeat=3)] + [[0, 1, 0, 1]]
    depth = 9 if thorough else 3      # thorough: until no new state appears (closure is reached at depth 6-7)
    ctx.extra["rule"] = ("exhaustive: every operation (add_child with index in %s, remove_child, replace_child x delete_old, shift x LEFT/RIGHT x sib, "
                         "remove_children; proviso-violating attachments skipped, every failing operand combination kept) applied to every distinct "
                         "state reachable in < %d edits from 4 detached nodes (thorough: until no new state appears), for each name assignment; all queries (2 names, %d paths, every "
                         "node / node pair) on every state reached; plus random histories of length 40-60 over 10-12 nodes and directed regression "
                         "histories; one sibling list of 300 children (shift / insert / remove / replace around positions 255-258 and the ends, all queries); every "
                         "name is a fresh str object; non-trivial = distinct (name assignment, state, operation)") % (EXH_IDX, depth, len(paths_small))
    jobs = []        # (name, text, describe(j) -> replay fragment)
    describe = {}
    universes = [[0, 0, 1, 0]] + ([[0, 1, 0, 1], [0, 0, 0, 0]] if thorough else [])
    qstates = 0
    for ui, names in enumerate(universes):
        chk = Checker(ctx, names, nnames, paths_small)
        table, hist, last = explore(ctx, chk, depth, EXH_IDX, state_cap=None)
        # (B) transitions, ~2500 per file
        batch, size, bi = [], 0, 0
        for si, (st, trans) in enumerate(table):
            if not trans:
                continue
            nm = f"C09_exh{ui}_{si}"
            jobs.append(job_ops(nm, names, st, trans))
            describe[nm] = ("ops", names, st, trans, hist[st])
        # queries on every reached state
        states = list(hist)
        for qi in range(0, len(states), 40):
            chunk = states[qi:qi + 40]
            want = []
            for st in chunk:
                want.append(chk.queries(st, hist[st]))
                ctx.case(("q", tuple(names), st))
                qstates += 1
            nm = f"C09_q{ui}_{qi // 40}"
            text = (HEADER + "Definition sts := " + clist(c_state(names, st) for st in chunk) + ".\n" +
                    "Definition paths := " + clist(c_natlist(p) for p in paths_small) + ".\n" +
                    "Definition want := " + clist(clist(c_q(a) for a in w) for w in want) + ".\n" +
                    f"Eval vm_compute in mismatches (list_eqb q_eqb) (map (q_all {len(names)} {nnames} paths) sts) want.\n")
            jobs.append((nm, text))
            describe[nm] = ("queries", names, chunk, want, [hist[st] for st in chunk], paths_small)
    ctx.count("states-queried", qstates)
    # random histories over larger universes
    nh = 400 if thorough else 120
    for hi in range(nh):
        n = ctx.rng.choice([10, 11, 12])
        names = [ctx.rng.randrange(2) for _ in range(n)]
        chk = Checker(ctx, names, nnames, paths_big)
        ops, obs = random_history(ctx, chk, ctx.rng.randint(40, 60), RAND_IDX)
        final = obs[-1][0] if obs else initial_state(n)
        mid = obs[len(obs) // 2][0] if obs else initial_state(n)
        wq = [chk.queries(mid, ops[:len(obs) // 2 + 1]), chk.queries(final, ops)]
        ctx.count("random-history-steps", len(ops))
        live_pass(ctx, chk, ops, obs, "random history")
        nm = f"C09_rand_{hi}"
        text = (HEADER + f"Definition s0 := {c_state(names, initial_state(n))}.\n" +
                "Definition ops := " + clist(c_op(op) for op in ops) + ".\n" +
                "Definition want : list obs := " + clist(c_obs(s2, r) for s2, r in obs) + ".\n" +
                f"Eval vm_compute in mismatches obs_eqb (run_hist {n} s0 ops) want.\n" +
                "Definition paths := " + clist(c_natlist(p) for p in paths_big) + ".\n" +
                "Definition wq := " + clist(clist(c_q(a) for a in w) for w in wq) + ".\n" +
                f"Eval vm_compute in mismatches (list_eqb q_eqb) (map (q_all {n} {nnames} paths) "
                f"[{c_state(names, mid)}; {c_state(names, final)}]) wq.\n")
        jobs.append((nm, text))
        describe[nm] = ("history", names, ops, obs)
        ctx.sample({"random_history": {"nodes": n, "names": "".join(NAME_STR[x] for x in names), "first_ops": ops[:6]}}, limit=3)
    for dname, names, ops, in_claim in directed():
        obs = run_directed(ctx, dname, names, ops, in_claim, nnames, paths_small)
        nm = "C09_dir_" + "".join(ch if ch.isalnum() else "_" for ch in dname)
        text = (HEADER + f"Definition s0 := {c_state(names, initial_state(len(names)))}.\n" +
                "Definition ops := " + clist(c_op(op) for op in ops) + ".\n" +
                "Definition want : list obs := " + clist(c_obs(s2, r) for s2, r in obs) + ".\n" +
                f"Eval vm_compute in mismatches obs_eqb (run_hist {len(names)} s0 ops) want.\n")
        jobs.append((nm, text))
        describe[nm] = ("history", names, ops, obs)
    bnames, bst, btrans = big_siblings(ctx, nnames)
    for bi in range(0, len(btrans), 12):
        nm = f"C09_big_{bi // 12}"
        jobs.append(job_ops(nm, bnames, bst, btrans[bi:bi + 12]))
        describe[nm] = ("ops", bnames, "node 0 lists 300 children", btrans[bi:bi + 12], [])
    # batch the small per-state files into larger ones
    merged, mdesc = merge_jobs(jobs)
    res = common.coq_eval_many(merged, timeout=1200)
    validated = 0
    for (mname, _), parts, (rc, out) in zip(merged, mdesc, res):
        vals = common.parse_eval_values(out) if rc == 0 else []
        if rc != 0 or len(vals) != sum(cnt for _, cnt in parts):
            ctx.fail("corr:coq-error", f"case file {mname} did not evaluate",
                     {"kind": "broken-correspondence", "file": mname, "output": out[-1500:]}, concrete=False)
            continue
        vi = 0
        for nm, cnt in parts:
            for k in range(cnt):
                bad = common.parse_nat_list(vals[vi])
                vi += 1
                d = describe[nm]
                total = len(d[3]) if d[0] in ("ops", "history") and k == 0 else None
                if total is not None:
                    validated += total - len(bad)
                if bad:
                    report_corr(ctx, nm, d, k, bad)
    ctx.extra["traces_validated_against_impl"] = validated
    if not built:
        ctx.obligations_failed("every operation on every state reachable within the depth bound, random long histories, all queries, "
                               "against a plain-Python ordered-list model")


def merge_jobs(jobs, target=2500):
    """Concatenate job texts (each uses its own Definitions) into Module-wrapped files."""
    merged, mdesc = [], []
    cur, parts, size = [], [], 0
    for nm, text in jobs:
        body = text[len(HEADER):] if text.startswith(HEADER) else text
        cnt = body.count("Eval vm_compute")
        cur.append(f"Module {nm}.\n{body}End {nm}.\n")
        parts.append((nm, cnt))
        size += len(body)
        if size > 250000:
            merged.append((f"C09_file{len(merged)}", HEADER + "".join(cur)))
            mdesc.append(parts)
            cur, parts, size = [], [], 0
    if cur:
        merged.append((f"C09_file{len(merged)}", HEADER + "".join(cur)))
        mdesc.append(parts)
    return merged, mdesc


def report_corr(ctx, nm, d, k, bad):
    if d[0] == "ops":
        _, names, st, trans, hist = d
        op, st2, ret = trans[bad[0]]
        ctx.fail("corr:C09:" + op[0], "model (Model/Edits.v exec) and implementation disagree on one operation",
                 {"kind": "broken-correspondence", "theorem": "C09_* (model/implementation correspondence)", "names": names,
                  "history_to_state": hist, "state": st, "op": op, "implementation": {"state_after": st2, "return": ret}}, concrete=False)
    elif d[0] == "history" and k == 0:
        _, names, ops, obs = d
        i = bad[0]
        ctx.fail("corr:C09:" + ops[i][0], f"model and implementation disagree at step {i} of a history",
                 {"kind": "broken-correspondence", "theorem": "C09_* (model/implementation correspondence)", "names": names,
                  "history": ops[:i + 1], "implementation": {"state_after": obs[i][0], "return": obs[i][1]}}, concrete=False)
    else:
        ctx.fail("corr:C09:queries", f"model and implementation disagree on a query ({nm}, state index {bad[0]})",
                 {"kind": "broken-correspondence", "theorem": "C09_queries (model/implementation correspondence)", "file": nm,
                  "state_index": bad[0]}, concrete=False)


def replay(ctx, data):
    """Re-run a recorded history against the implementation with the same statement checks."""
    r = data.get("replay", data)
    hist = r.get("history_from_all_detached") or r.get("history") or r.get("history_to_state")
    names = r.get("names")
    if hist is None or names is None:
        print("nothing to replay against the implementation:", r.get("kind"))
        return
    names = [NAME_STR.index(x) if isinstance(x, str) else x for x in names]
    ops = [tuple(o) for o in hist]
    if r.get("op") is not None and (not ops or ops[-1] != tuple(r["op"])) and "history_to_state" in r:
        ops.append(tuple(r["op"]))
    paths = [[], [0], [1], [0, 0], [0, 1], [1, 0], [1, 1], [0, 0, 0], [0, 1, 0], [1, 0, 1], [0, 1, 0, 1]]
    chk = Checker(ctx, names, 2, paths)
    st = initial_state(len(names))
    for k, op in enumerate(ops):
        st, ret = chk.step(st, op, [list(o) for o in ops[:k + 1]])
        print("step", k, op, "->", ret, "children", [list(x) for x in st[0]], "parents", list(st[1]))
    chk.queries(st, [list(o) for o in ops])

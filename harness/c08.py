"""C08 — XML import mirrors the document; import-export-import is stable.

Documents are generated from the quantifier's grammar (prefixed declarations incl.
re-declaration in subtrees and two prefixes for one URI, xml:-prefixed and other qualified
attributes, entities / character references / CDATA, comments between elements,
whitespace-only / nbsp / tab text and tails, literal elements).
(B) correspondence: the harness dumps the lxml infoset with an independent walker and the
    Gallina model process_element, evaluated in Coq, must reproduce from_xml's tree (all
    fields, nsmap order included; ids ignored) for all four (clean, collapse) and random literals;
    the specification parser xparse is validated on the same documents against expat and lxml.
(S) statement: an independent plain-Python mirror computed from an expat parse (no lxml, no
    model) is compared with from_xml's tree; the chain from_xml(to_xml(from_xml(d))) is
    compared with from_xml(d) up to the whitespace policy."""
import re

from harness import common
from harness import nodelib as NL
from harness import rulelib as RL
from harness import xmllib as X
from harness.common import cstr, copt, clist, cpair, cbool

PREFIXES = ["p", "q", "ns1", "eml", "xsi", "é", "x-1"]
KEEP = re.compile("^[ \xa0\t]+$")


# ------------------------------------------------------------------ document generator
def esc_text(rng, x):
    out = []
    for ch in x:
        r = rng.random()
        if ch == "<":
            out.append(rng.choice(["&lt;", "&#60;", "&#x3c;"]))
        elif ch == "&":
            out.append(rng.choice(["&amp;", "&#38;"]))
        elif ch == ">":
            out.append(rng.choice(["&gt;", ">"]) if out[-2:] != ["]", "]"] else "&gt;")
        elif ch == "\r":
            out.append("&#13;")
        elif r < 0.04 and ch not in "\n\t":
            out.append("&#%d;" % ord(ch) if rng.random() < 0.5 else "&#x%X;" % ord(ch))
        elif ch == '"' and r < 0.3:
            out.append("&quot;")
        elif ch == "'" and r < 0.3:
            out.append("&apos;")
        else:
            out.append(ch)
    return "".join(out)


def esc_attr(rng, x, q):
    out = []
    for ch in x:
        if ch == "<":
            out.append("&lt;")
        elif ch == "&":
            out.append("&amp;")
        elif ch == q:
            out.append("&quot;" if q == '"' else "&apos;")
        elif ch in "\t\n\r":
            out.append("&#%d;" % ord(ch))
        elif rng.random() < 0.04:
            out.append("&#x%x;" % ord(ch))
        else:
            out.append(ch)
    return "".join(out)


def gen_chunk(rng):
    """one run of character data as (source text, is_cdata)"""
    r = rng.random()
    if r < 0.2:
        return "".join(rng.choice([" ", "\n", "\t", "  ", "\n    "]) for _ in range(rng.randrange(1, 4)))
    if r < 0.3:
        return "".join(rng.choice([" ", "\xa0", "\t"]) for _ in range(rng.randrange(1, 4)))
    if r < 0.36:
        return "".join(rng.choice([" ", "\xa0", "\t"]) for _ in range(rng.randrange(1, 3))) + "\n"
    if r < 0.5:
        return rng.choice([" ", "\n  ", "", "\xa0"]) + X.rand_text(rng) + rng.choice([" ", "\n", "", "\t", "\r"])
    if r < 0.6:
        return "a  b\n\tc " + X.rand_text(rng, maxlen=5)
    return X.rand_text(rng)


def gen_text(rng):
    """possibly empty text: concatenation of escaped chunks and CDATA sections"""
    if rng.random() < 0.35:
        return ""
    out = []
    for _ in range(rng.choice([1, 1, 1, 2])):
        c = gen_chunk(rng)
        if rng.random() < 0.15 and "]]>" not in c and "\r" not in c:
            out.append("<![CDATA[" + c + "]]>")
        else:
            out.append(esc_text(rng, c))
    return "".join(out)


def gen_comment(rng):
    body = X.rand_text(rng, maxlen=6).replace("\r", " ")   # a raw CR would be normalised by the parsers
    while "--" in body:
        body = body.replace("--", "- -")
    if body.endswith("-"):
        body += " "
    return "<!--" + body + "-->"


def gen_elem(rng, scope, depth, counter, opts):
    counter[0] += 1
    decls = []
    for _ in range(rng.choice([0, 0, 0, 1, 1, 2]) if scope else rng.choice([0, 1, 2, 3])):
        r = rng.random()
        if scope and r < 0.35:
            p = rng.choice(list(scope))                        # re-declaration in a subtree
            u = scope[p] if rng.random() < 0.5 else rng.choice(X.URIS)
        else:
            p = rng.choice(PREFIXES)
            u = rng.choice(list(scope.values())) if scope and rng.random() < 0.3 else rng.choice(X.URIS)   # alias
        if p not in [d[0] for d in decls]:
            decls.append((p, u))
    sc = dict(scope)
    sc.update(decls)
    default_ns = opts.get("default_ns") and rng.random() < 0.3
    prefix = rng.choice(list(sc)) if sc and rng.random() < 0.5 else None
    local = rng.choice(opts["names"]) if rng.random() < 0.5 else X.rand_name(rng)
    qn = local if prefix is None else prefix + ":" + local
    attrs = []
    names = []
    for _ in range(rng.choice([0, 0, 1, 1, 2])):
        k = X.rand_name(rng, avoid=names)
        names.append(k)
        attrs.append((k, X.rand_text(rng, attr=rng.random() < 0.8, maxlen=8)))
    seen = set()
    for _ in range(rng.choice([0, 0, 0, 1, 1, 2])):
        p = rng.choice(list(sc) + ["xml"]) if sc else "xml"
        l = rng.choice(["lang", "space"]) if p == "xml" else X.rand_name(rng)
        key = p + ":" + l
        ex = X.expand(key, sc)
        if ex in seen or key in names:
            continue
        seen.add(ex)
        names.append(key)
        v = rng.choice(["en", "preserve", "default"]) if p == "xml" else X.rand_text(rng, attr=True, maxlen=8)
        attrs.append((key, v))
    parts = [("xmlns:" + p, u) for p, u in decls] + attrs
    if default_ns:
        parts.append(("xmlns", rng.choice(X.URIS)))
    if rng.random() < 0.5:
        rng.shuffle(parts)
    s = "<" + qn
    for k, v in parts:
        q = rng.choice(['"', '"', "'"])
        eq = rng.choice(["=", "=", "=", " = ", "= "])
        s += rng.choice([" ", " ", " ", "\n  ", "  "]) + k + eq + q + esc_attr(rng, v, q) + q
    nk = 0
    if depth > 0 and counter[0] < 8:
        nk = rng.choice([0, 0, 1, 2, 3])
    text = gen_text(rng)
    if nk == 0 and text == "" and rng.random() < 0.6:
        return s + rng.choice(["/>", " />"])
    s += rng.choice([">", ">", " >"]) + text
    for _ in range(nk):
        if counter[0] >= 8:
            break
        if rng.random() < 0.25:
            s += gen_comment(rng) + (rng.choice(["", "\n  ", " "]) if rng.random() < 0.5 else "")
        if opts.get("pi") and rng.random() < 0.3:
            s += "<?" + rng.choice(["pi", "target", "x-y"]) + rng.choice(["", " data", " a='b' "]) + "?>"
        s += gen_elem(rng, sc, depth - 1, counter, opts) + gen_text(rng)
    if nk and rng.random() < 0.15:
        s += gen_comment(rng)
    return s + "</" + qn + rng.choice([">", ">", " >"])


def gen_doc(rng, opts):
    d = ""
    if rng.random() < 0.2:
        d += rng.choice(['<?xml version="1.0"?>', '<?xml version="1.0" encoding="UTF-8"?>\n', "<?xml version='1.0' encoding='utf-8' standalone='yes'?>\n"])
    if rng.random() < 0.15:
        d += gen_comment(rng) + "\n"
    d += gen_elem(rng, {}, 3, [0], opts)
    if rng.random() < 0.3:
        d += rng.choice(["\n", "\n<!-- end -->\n", "  "])
    return d


# ------------------------------------------------------------------ the statement: independent mirror from expat
def policy(x, clean, collapse, literal=False):
    """The documented whitespace policy, from the property text. x: str (never None here)."""
    if x == "":
        return None
    if not clean or literal:
        return x
    if all(c in " \t\xa0" for c in x):
        return x
    t = x.strip()
    if t == "":
        return None
    if collapse:
        return " ".join(x.split())
    return t


def mirror(raw, scope, clean, collapse, literals):
    """Expected tree (plain data) for a syntactic expat node; qualified attributes are returned
    as (expanded name, local, value) because the statement does not say which of several
    prefixes bound to the same URI names the attribute."""
    decls = [(k[6:], v) for k, v in raw["attrs"] if k.startswith("xmlns:")]
    sc = dict(scope)
    sc.update(decls)
    qn = raw["name"]
    prefix, local = (qn.split(":", 1) if ":" in qn else (None, qn))
    plain = [[k, v] for k, v in raw["attrs"] if ":" not in k and k != "xmlns"]
    qual = [[X.expand(k, sc), k.split(":", 1)[1], v] for k, v in raw["attrs"] if ":" in k and not k.startswith("xmlns:")]
    kids = [mirror(k, sc, clean, collapse, literals) for k in raw["kids"] if k["kind"] == "elem"]
    return {"name": local, "prefix": prefix, "attrs": plain, "qual": qual, "scope": sc,
            "content": policy(raw["text"], clean, collapse, local in literals),
            "tail": policy(raw["tail"], clean, collapse), "kids": kids}


def cmp_mirror(sn, m, path="/"):
    """from_xml snapshot vs mirror. Returns None or (field, description, source value)."""
    here = path + m["name"]
    if sn["name"] != m["name"]:
        return ("name", f"{here}: name {sn['name']!r} != {m['name']!r}", None)
    if sn["prefix"] != m["prefix"]:
        return ("prefix", f"{here}: prefix {sn['prefix']!r} != {m['prefix']!r}", None)
    if sn["attrs"] != m["attrs"]:
        return ("attributes", f"{here}: attributes {sn['attrs']!r} != {m['attrs']!r}", None)
    if dict(sn["nsmap"]) != m["scope"] or len(sn["nsmap"]) != len(m["scope"]):
        return ("nsmap", f"{here}: in-scope bindings {sn['nsmap']!r} != {m['scope']!r}", None)
    if len(sn["extras"]) != len(m["qual"]):
        return ("extras", f"{here}: qualified attributes {sn['extras']!r} vs {m['qual']!r}", None)
    for (k, v), (ex, l, v2) in zip(sn["extras"], m["qual"]):
        if ":" not in k or X.expand(k, m["scope"]) != ex or k.split(":", 1)[1] != l or v != v2:
            return ("extras", f"{here}: qualified attribute {k!r}={v!r} does not name {ex!r}={v2!r} by a prefix in scope", None)
    # None and the empty string are not distinguished (an empty CDATA section gives '' in lxml)
    if (sn["content"] or None) != m["content"]:
        return ("content", f"{here}: content {sn['content']!r} != {m['content']!r}", sn["content"])
    if (sn["tail"] or None) != m["tail"]:
        return ("tail", f"{here}: tail {sn['tail']!r} != {m['tail']!r}", sn["tail"])
    if len(sn["kids"]) != len(m["kids"]):
        return ("children", f"{here}: {len(sn['kids'])} children != {len(m['kids'])}", None)
    for a, b in zip(sn["kids"], m["kids"]):
        r = cmp_mirror(a, b, here + "/")
        if r:
            return r
    return None


def cmp_chain(a, b, path="/"):
    """second import vs first import: everything exact except content/tail up to surrounding whitespace."""
    here = path + b["name"]
    if a["name"] != b["name"] or a["prefix"] != b["prefix"]:
        return ("name", f"{here}: name/prefix differ")
    if a["attrs"] != b["attrs"]:
        return ("attributes", f"{here}: attributes {a['attrs']!r} != {b['attrs']!r}")
    if a["extras"] != b["extras"]:
        ea = [[X.expand(k, dict(a["nsmap"])), v] for k, v in a["extras"]]
        eb = [[X.expand(k, dict(b["nsmap"])), v] for k, v in b["extras"]]
        return ("extras-alias" if ea == eb else "extras", f"{here}: qualified attributes {a['extras']!r} != {b['extras']!r}")
    if dict(a["nsmap"]) != dict(b["nsmap"]):
        return ("nsmap", f"{here}: namespace bindings {a['nsmap']!r} != {b['nsmap']!r}")
    if X._ws(a["content"]) != X._ws(b["content"]):
        return ("content", f"{here}: content {a['content']!r} !~ {b['content']!r}")
    if X._ws(a["tail"]) != X._ws(b["tail"]):
        return ("tail", f"{here}: tail {a['tail']!r} !~ {b['tail']!r}")
    if len(a["kids"]) != len(b["kids"]):
        return ("children", f"{here}: child count")
    for x, y in zip(a["kids"], b["kids"]):
        r = cmp_chain(x, y, here + "/")
        if r:
            return r
    return None


def has_default_ns(raw):
    return any(k == "xmlns" for k, _ in raw["attrs"]) or any(has_default_ns(k) for k in raw["kids"])


def alias_class(raw, scope):
    """some element carries a qualified attribute whose URI is bound to >= 2 prefixes in scope"""
    sc = dict(scope)
    sc.update((k[6:], v) for k, v in raw["attrs"] if k.startswith("xmlns:"))
    for k, v in raw["attrs"]:
        if ":" in k and not k.startswith("xmlns:"):
            p = k.split(":", 1)[0]
            if p != "xml" and sum(1 for u in sc.values() if u == sc.get(p)) >= 2:
                return True
    return any(alias_class(k, sc) for k in raw["kids"] if k["kind"] == "elem")



# ------------------------------------------------------------------ history sensitivity and optional parameters
def history_phase(ctx, io, hist, thorough):
    """The model is a pure function of the infoset and the flags; this phase tests that the
    implementation is too: every (document, flags, literals) imported again after all the others
    (reverse order), with defaults / positional / keyword arguments, with the flag combinations
    alternating on one document, in a fresh interpreter in shuffled order, and the export/import
    chain on a tree edited in place against a freshly built identical tree."""
    from harness.c07 import edit_in_place
    rng = ctx.rng

    def imp(doc, clean, collapse, lits, style=0):
        try:
            if style == 0:
                n = io.from_xml(doc, clean=clean, collapse=collapse, literals=lits)
            elif style == 1:
                n = io.from_xml(doc, clean, collapse, lits)
            else:
                n = io.from_xml(literals=lits, collapse=collapse, xml=doc, clean=clean)
            return X.strip_ids(NL.snapshot(n)), n
        except Exception as ex:
            return {"exc": type(ex).__name__}, None

    # (a) again, in reverse order, alternating call styles; nothing is reset in between
    for i, (doc, clean, collapse, lits, first) in enumerate(reversed(hist)):
        got, _ = imp(doc, clean, collapse, lits, style=i % 3)
        ctx.case(("hist", doc, clean, collapse, lits), False)
        if got != first:
            ctx.fail("C08:history:repeat", "from_xml gives a different tree for the same document and flags when called again after other imports",
                     {"kind": "history", "document": doc, "clean": clean, "collapse": collapse, "literals": list(lits), "first": first, "later": got})
    # (b) defaults, and all flag combinations alternating on the same document
    docs = []
    for doc, _c, _k, _l, _f in hist:
        if doc not in docs:
            docs.append(doc)
    for doc in docs[: (200 if thorough else 40)]:
        ref = {}
        combos = [(c, k, l) for c in (True, False) for k in (False, True) for l in ((), ("para", "a"), ("lit",))]
        for c, k, l in combos:
            ref[(c, k, l)] = imp(doc, c, k, l)[0]
        d0 = None
        try:
            d0 = X.strip_ids(NL.snapshot(io.from_xml(doc)))
        except Exception as ex:
            d0 = {"exc": type(ex).__name__}
        if d0 != ref[(True, False, ())]:
            ctx.fail("C08:history:defaults", "from_xml(doc) differs from from_xml(doc, clean=True, collapse=False, literals=())",
                     {"kind": "history", "document": doc, "defaults": d0, "explicit": ref[(True, False, ())]})
        order = combos[:]
        rng.shuffle(order)
        for c, k, l in order:
            ctx.case(("alt", doc, c, k, l), False)
            got = imp(doc, c, k, l, style=rng.randrange(3))[0]
            if got != ref[(c, k, l)]:
                ctx.fail("C08:history:flags-leak", "the result for one flag combination depends on the calls made before it",
                         {"kind": "history", "document": doc, "clean": c, "collapse": k, "literals": list(l), "first": ref[(c, k, l)], "later": got})
    # (c) a fresh interpreter, shuffled order
    jobs = [({"op": "import", "doc": d, "clean": c, "collapse": k, "literals": list(l)}, f) for d, c, k, l, f in hist]
    rng.shuffle(jobs)
    try:
        res = X.fresh_run([j for j, _ in jobs])
        for (j, want), got in zip(jobs, res):
            ctx.case(("fresh", j["doc"], j["clean"], j["collapse"], tuple(j["literals"])), False)
            if got != want:
                ctx.fail("C08:history:fresh-interpreter", "a fresh interpreter imports the same document differently (state leaked between calls in one of the two processes)",
                         {"kind": "history", "job": j, "in_process": want, "fresh_interpreter": got})
    except Exception as ex:
        ctx.fail("harness:fresh-interpreter", "could not run the fresh-interpreter reference: %s" % ex, {"kind": "harness"}, concrete=False)
    # (d) the chain on a tree edited in place vs a freshly built identical tree
    for i, doc in enumerate(docs[: (150 if thorough else 40)]):
        clean, collapse = rng.choice(FLAGS)
        _, node = imp(doc, clean, collapse, ())
        if node is None:
            continue
        ops = edit_in_place(rng, node, "c8h%d" % i)
        sn2 = NL.snapshot(node)
        try:
            used = io.to_xml(node)
            fresh = io.to_xml(NL.build(sn2, attach=False))
        except Exception as ex:
            ctx.fail("C08:history:export-raises", "exporting an imported and edited tree raised %s" % type(ex).__name__,
                     {"kind": "history", "document": doc, "edits": ops})
            continue
        ctx.case(("edit", used), False)
        if used != fresh:
            ctx.fail("C08:history:stale-after-edit", "an imported tree edited in place exports differently from a freshly built identical tree",
                     {"kind": "history", "document": doc, "edits": ops, "tree": X.strip_ids(sn2), "used_tree_output": used, "fresh_tree_output": fresh})
    NL.reset_store()

DIRECTED = [
    '<a> \n</a>',
    '<a><b/> \n</a>',
    '<r xmlns:a="u" xmlns:b="u"><c xmlns:b="u" a:x="1"/></r>',
    '<r xmlns:a="u" xmlns:b="u" a:x="1" xml:lang="en"><!-- c --><c b:y="2"/><!-- d --></r>',
    '<eml:eml xmlns:eml="https://eml.ecoinformatics.org/eml-2.2.0" xmlns:xsi="http://www.w3.org/2001/XMLSchema-instance" '
    'xsi:schemaLocation="a b" packageId="x.1.1"><dataset><title> A  title\n </title><para>  keep   this </para>\n  </dataset></eml:eml>',
    '<a k="&#10;x&#9;&#13;" xml:lang="&#10;"/>', '<a>x&#13;y<b/>t&#13;u</a>', '<a>&#13;</a>', '<a>\xa0</a>', '<a>\t \xa0</a>', '<a>x<![CDATA[ <y> ]]>z</a>', '<a>&#32;&#9;</a>', '<a><![CDATA[]]></a>', '<a><b> </b>  <c>\n</c>\t</a>',
]
# every white-space shape as text and as tail (each document is imported with all four flag combinations,
# clean=False/collapse=True included), and CDATA sections with markup and non-ASCII characters
WS_SHAPES = [" ", "  ", "\n", "\t", "\xa0", " \n", "\n ", "\t\xa0 ", "\n\n  \n", "a  b", " a\n b ", "\xa0a\xa0", "a\tb\n\nc", " \u2003x\u2003 ", "x\x85y", "\u3000"]
DIRECTED = DIRECTED + ["<r><a>%s</a><b/>%s<c>%s<d/>%s</c></r>" % (w, w, w, w) for w in WS_SHAPES] + [
    "<a><![CDATA[<b>&amp; é 漢 \U0001F600 ]] > </b>]]></a>", "<a> <![CDATA[ <x/> ]]> t <![CDATA[&#38;é]]><b/><![CDATA[\n tail <&> ü ]]></a>",
    "<p:a xmlns:p='urn:e'><![CDATA[  ]]><p:b><![CDATA[a  b]]></p:b><![CDATA[\xa0]]></p:a>",
    "<a xmlns='urn:d'><b xmlns:p='urn:p' p:k='v'/><c xmlns=''/></a>",
]
FLAGS = [(True, False), (True, True), (False, False), (False, True)]


def run(ctx):
    from metapype.model import metapype_io as io
    built = ctx.build(extra_targets=["theories/Model/XmlRun.v"])
    thorough = ctx.tier == "thorough"
    n_docs = 900 if thorough else 120
    ctx.extra["rule"] = ("random documents (<= 8 elements, depth <= 3) from the quantifier's grammar, each imported with all four (clean, collapse) "
                         "combinations and a random literals tuple; plus directed documents; for the correspondence only, also documents with "
                         "processing instructions and default-namespace declarations; non-trivial = distinct (document, flags, literals)")
    docs = [(d, "with-default-ns" if "xmlns=" in d else "directed") for d in DIRECTED]
    # sizes past 256: one element with 300 children, one with 300 attributes; empty attribute values
    big = "<r n=''>" + "".join("<c i='%d'%s/>" % (i, " e=''" if i % 9 == 0 else "") if i % 3 else "<c> t%d </c>" % i for i in range(300))
    big += "<many " + " ".join("a%d='%d'" % (i, i) for i in range(300)) + "/></r>"
    docs.append((big, "directed"))
    names_pool = ["a", "b", "para", "title", "lit"]
    for i in range(n_docs):
        r = ctx.rng.random()
        opts = {"names": names_pool}
        origin = "grammar"
        if r < 0.06:
            opts["pi"] = True
            origin = "with-pi"
        elif r < 0.12:
            opts["default_ns"] = True
            origin = "with-default-ns"
        docs.append((gen_doc(ctx.rng, opts), origin))

    cases, wants, meta = [], [], []
    hist = []
    mcases, mmeta = [], []
    pcases, pw_raw, pw_lx, pmeta = [], [], [], []
    for doc, origin in docs:
        lx, err = X.lxml_parse(doc)
        raw, err2 = X.expat_raw(doc)
        et, err3 = X.et_parse(doc)
        if lx is None or raw is None or et is None:
            # the generator is meant to produce well-formed documents only
            ctx.fail("harness:generator", f"generated document rejected (lxml: {err}; expat: {err2 or err3})",
                     {"kind": "harness", "document": doc}, concrete=False)
            continue
        ctx.count("docs:" + origin)
        in_class = origin in ("grammar", "directed")
        if not has_default_ns(raw) and "<![CDATA[]]>" not in doc:
            pcases.append(cstr(doc))
            pw_raw.append("(Some " + X.coq_xnode(raw) + ")")
            pw_lx.append("(Some " + X.coq_xel(lx) + ")")
            pmeta.append({"document": doc, "origin": origin})
        for clean, collapse in FLAGS:
            lits = tuple(X.fresh(l) for l in ctx.rng.sample(names_pool + ["zz", ""], ctx.rng.choice([0, 0, 1, 2])))
            ctx.case((doc, clean, collapse, lits))
            # the implementation
            try:
                node = io.from_xml(doc, clean=clean, collapse=collapse, literals=lits)
                sn = X.strip_ids(NL.snapshot(node))
                want = "(Ok " + X.coq_itree(sn) + ")"
                exc = None
            except Exception as ex:
                sn = None
                exc = type(ex).__name__
                want = "(Crash " + cstr(exc) + ")"
            cases.append("(" + cbool(clean) + ", " + cbool(collapse) + ", " + clist(cstr(l) for l in lits) + ", " + X.coq_xel(lx) + ")")
            wants.append(want)
            meta.append({"document": doc, "clean": clean, "collapse": collapse, "literals": list(lits), "observed": sn or exc})
            hist.append((doc, clean, collapse, lits, sn if sn is not None else {"exc": exc}))
            if not in_class:
                NL.reset_store()
                continue
            mcases.append("(" + cases[-1][1:-1] + ", " + want + ")")
            mmeta.append(meta[-1])
            # (S) the statement
            rep = {"kind": "impl-vs-statement", "document": doc, "clean": clean, "collapse": collapse, "literals": list(lits)}
            if sn is None:
                ctx.fail("C08:import-raises", f"from_xml raised {exc} on a well-formed document of the class", dict(rep, observed=exc))
                NL.reset_store()
                continue
            m = mirror(raw, {}, clean, collapse, lits)
            r = cmp_mirror(sn, m)
            if r:
                field, what, val = r
                key = "C08:mirror:" + field
                ctx.fail(key, what, dict(rep, observed=sn, difference=what))
            # the chain
            try:
                out = io.to_xml(node)
                n2 = io.from_xml(out, clean=clean, collapse=collapse, literals=lits)
                s2 = X.strip_ids(NL.snapshot(n2))
            except Exception as ex:
                ctx.fail("C08:stable:raises", f"re-importing the exported tree raised {type(ex).__name__}: {ex}", dict(rep, first_import=sn))
                NL.reset_store()
                continue
            r = cmp_chain(s2, sn)
            if r:
                field, what = r
                key = "C08:stable:" + field
                if field == "extras-alias" and alias_class(raw, {}):
                    key = "C08:stable:alias-prefix-redeclared"
                    what += (" (same expanded name under another prefix: two prefixes are bound to one URI and the order of the in-scope "
                             "bindings changed because a redundant re-declaration was not re-exported)")
                ctx.fail(key, "import-export-import is not stable: " + what, dict(rep, first_import=sn, exported=out, second_import=s2))
            NL.reset_store()
        ctx.sample({"document": doc, "origin": origin}, limit=4)

    history_phase(ctx, io, hist, thorough)

    shard = 150
    bad, errors = RL.coq_compare(ctx, "imp", "run_import", cases, wants, shard=shard, header=X.HEADER, eqb="(res_eqb itree_eqb)")
    ctx.extra["traces_validated_against_impl"] = len(cases) - len(bad)
    for name, outp in errors:
        ctx.fail("corr:coq-error", f"case file {name} did not evaluate", {"kind": "broken-correspondence", "file": name, "output": outp}, concrete=False)
    for i in bad[:3]:
        ctx.fail("corr:process_element", "model process_element and from_xml disagree",
                 {"kind": "broken-correspondence", "theorem": "C08 (model/implementation correspondence)", "case": meta[i],
                  "model": RL.coq_show(ctx, "imp", "run_import", cases[i], header=X.HEADER)}, concrete=False)
    # the declarative spec (Spec/Mirror.v: infoset_okb, mirror) evaluated in Coq on the in-class documents
    bad, errors = RL.coq_compare(ctx, "mir", "run_mirror", mcases, ["true"] * len(mcases), shard=shard, header=X.HEADER, eqb="Bool.eqb")
    ctx.extra["spec_mirror_validated_against_impl"] = len(mcases) - len(bad)
    for name, outp in errors:
        ctx.fail("corr:coq-error", f"case file {name} did not evaluate", {"kind": "broken-correspondence", "file": name, "output": outp}, concrete=False)
    for i in bad[:3]:
        ctx.fail("spec:mirror", "Spec/Mirror.v (infoset_okb / mirror) does not describe from_xml's tree on a document of the class",
                 {"kind": "broken-correspondence", "theorem": "C08_mirror (statement side)", "case": mmeta[i]}, concrete=False)
    for label, fn, pw, eqb in (("xpraw", "xparse", pw_raw, "(opt_eqb xnode_eqb)"), ("xplx", "run_parse", pw_lx, "(opt_eqb xel_eqb)")):
        bad, errors = RL.coq_compare(ctx, label, fn, pcases, pw, shard=shard, header=X.HEADER, eqb=eqb)
        ctx.extra["xparse_validated_" + label] = len(pcases) - len(bad)
        for name, outp in errors:
            ctx.fail("corr:coq-error", f"case file {name} did not evaluate", {"kind": "broken-correspondence", "file": name, "output": outp}, concrete=False)
        for i in bad[:3]:
            ctx.fail(f"corr:xparse:{label}", "the specification parser xparse disagrees with " + ("expat" if label == "xpraw" else "lxml"),
                     {"kind": "broken-correspondence", "theorem": "Spec/Xml.v xparse as stand-in for a conforming parser", "case": pmeta[i],
                      "model": RL.coq_show(ctx, label, fn, pcases[i], header=X.HEADER)}, concrete=False)
    if not built:
        ctx.obligations_failed("documents of the quantifier's grammar imported with all flag combinations and compared with an expat-based mirror")

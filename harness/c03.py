"""C03 — attribute validation enforces exactly required / allowed / enumerated.

Steps (DESIGN section 4): build the proof cone; enumerate the property's own
abstraction completely per rule; (B) model-vs-implementation correspondence
evaluated inside Coq; (S) implementation-vs-declarative-statement search in
Python (independent of the model); introspection queries."""
import itertools

from harness import rulelib as RL

FOREIGN = "zzForeign"
UNLISTED = "zz-unlisted"


def attr_domain(spec):
    """abstraction {absent, each listed value, one unlisted value}"""
    vals = [v for v in spec[1:] if isinstance(v, str)]
    # the empty string is a value like any other (present, not absent): it must never be
    # read as "missing" and is unlisted unless the table lists it
    if vals:
        return [None] + vals + [UNLISTED] + ([""] if "" not in vals else [])
    return [None, "v", ""]


def expected_violations(rattrs, attrs):
    """Declarative statement, from the property text. attrs: ordered (k, v) pairs.
    Returns list of (kind, attr) in the order: required (table order), then per node attribute."""
    out = []
    present = [k for k, _ in attrs]
    for k, spec in rattrs.items():
        if spec[0] is True and k not in present:
            out.append(("ATTRIBUTE_REQUIRED", k))
    for k, v in attrs:
        if k not in rattrs:
            out.append(("ATTRIBUTE_UNRECOGNIZED", k))
        elif len(rattrs[k]) > 1 and v not in rattrs[k][1:]:
            out.append(("ATTRIBUTE_EXPECTED_ENUM", k))
    return out


def assignments(ctx, rattrs, limit):
    keys = list(rattrs)
    doms = [attr_domain(rattrs[k]) for k in keys]
    total = 2
    for d in doms:
        total *= len(d)
    if total <= limit:
        for combo in itertools.product(*doms):
            for foreign in (False, True):
                yield [(k, v) for k, v in zip(keys, combo) if v is not None] + ([(FOREIGN, "f")] if foreign else []), True
    else:
        # pairwise-covering: all pairs of (attribute,value) choices, rest random; plus random fill
        seen = set()
        for i, j in itertools.combinations(range(len(keys)), 2):
            for vi in doms[i]:
                for vj in doms[j]:
                    combo = [ctx.rng.choice(d) for d in doms]
                    combo[i], combo[j] = vi, vj
                    foreign = ctx.rng.random() < 0.3
                    sig = (tuple(combo), foreign)
                    if sig in seen:
                        continue
                    seen.add(sig)
                    yield [(k, v) for k, v in zip(keys, combo) if v is not None] + ([(FOREIGN, "f")] if foreign else []), False
        while len(seen) < limit:
            combo = [ctx.rng.choice(d) for d in doms]
            foreign = ctx.rng.random() < 0.3
            sig = (tuple(combo), foreign)
            if sig in seen:
                continue
            seen.add(sig)
            yield [(k, v) for k, v in zip(keys, combo) if v is not None] + ([(FOREIGN, "f")] if foreign else []), False



# ------------------------------------------------------------------ returned containers are mutable (lesson k)
def attr_facts(rule_obj, rname, rattrs, content):
    """What the queries report and what validation enforces for one rule, through the given Rule object:
    (queries per attribute, attribute codes of a fixed enumeration of assignments)."""
    from metapype.model.node import Node
    q = []
    for k in rattrs:
        try:
            q.append([k, bool(rule_obj.is_required_attribute(k)), list(rule_obj.allowed_attribute_values(k))])
        except Exception as e:  # noqa
            q.append([k, "RAISED:" + type(e).__name__])
    base = [(k, (sp[1] if len(sp) > 1 else "v")) for k, sp in rattrs.items() if sp[0] is True]
    probes = [base, base + [(FOREIGN, "f")], []]
    for k, sp in rattrs.items():
        rest = [kv for kv in base if kv[0] != k]
        for v in [x for x in sp[1:] if isinstance(x, str)] + [UNLISTED, "", "zz-injected"]:
            probes.append(rest + [(k, v)])
    v = []
    for a in probes:
        n = RL.build_node("x", content, a, [])
        errs = []
        try:
            rule_obj.validate_rule(n, errs)
            v.append([e[0].name for e in errs if e[0].name.startswith("ATTRIBUTE_")])
        except Exception as e:  # noqa
            v.append(["RAISED:" + type(e).__name__])
        Node.store.clear()
    return q, v, probes


def facts_match_table(q, v, probes, rattrs):
    """the statement: queries report the table, validation enforces the table"""
    for item in q:
        k = item[0]
        if len(item) != 3 or item[1] != (rattrs[k][0] is True) or item[2] != list(rattrs[k][1:]):
            return f"query for {k!r} reports {item[1:]}, the table says {rattrs[k]}"
    for a, got in zip(probes, v):
        exp = [c for c, _ in expected_violations(rattrs, a)]
        if got != exp:
            return f"validation of attributes {a} reports {got}, the table implies {exp}"
    return None


def aliasing_phase(ctx, pristine):
    """Mutate every container the introspection API hands out and re-run the queries and the validation
    enumeration through a kept and a fresh Rule object: the query results must be copies (nothing changes);
    the property values that expose the rule's own data may alias it, but queries and validation must then
    still report/enforce the same (edited) table. The live table is restored from the file copy afterwards."""
    import copy
    from metapype.eml import rule as R
    for rname in list(pristine):
        rattrs0 = pristine[rname][0]
        if not rattrs0:
            continue
        content = RL.canonical_content(pristine[rname])
        kept = R.Rule(rname)
        q0, v0, probes = attr_facts(R.Rule(rname), rname, rattrs0, content)
        # (1) the list returned by allowed_attribute_values
        for k in rattrs0:
            for op in ("append", "remove-first", "clear", "insert-empty-string"):
                vals = kept.allowed_attribute_values(k)
                if op == "append":
                    vals.append("zz-injected")
                elif op == "remove-first":
                    if vals:
                        del vals[0]
                elif op == "clear":
                    vals.clear()
                else:
                    vals.insert(0, "")
                ctx.case(("alias", rname, k, op))
                ctx.count("aliasing_probes")
                for who, obj in (("kept Rule object", kept), ("fresh Rule object", R.Rule(rname))):
                    q, v, _ = attr_facts(obj, rname, rattrs0, content)
                    why = facts_match_table(q, v, probes, rattrs0)
                    if (q, v) != (q0, v0) or why:
                        ctx.fail(f"C03:introspection-aliasing:{rname}",
                                 f"after a caller applied {op} to the list returned by allowed_attribute_values({k!r}), the {who} "
                                 f"reports/enforces something else: {why or 'differs from before the edit'}",
                                 {"kind": "impl-vs-statement", "rule": rname, "attribute": k, "edit_of_returned_list": op, "through": who,
                                  "queries_before": q0, "queries_after": q, "table": rattrs0,
                                  "validation_before": v0, "validation_after": v, "probe_assignments": probes})
                if R.rules_dict[rname] != pristine[rname]:
                    ctx.fail(f"C03:introspection-aliasing:{rname}", f"editing the list returned by allowed_attribute_values({k!r}) changed the live rule table",
                             {"kind": "impl-vs-statement", "rule": rname, "attribute": k, "edit_of_returned_list": op,
                              "live_entry": R.rules_dict[rname], "file_entry": pristine[rname]})
                    R.rules_dict[rname] = copy.deepcopy(pristine[rname])
                    kept = R.Rule(rname)
        # (2) the property values: they expose the rule's own data; after an edit through them queries and
        #     validation must still agree with each other, i.e. with the table as it is NOW
        for prop in ("attributes", "children", "content_rules", "content_enum"):
            kept = R.Rule(rname)
            c = getattr(kept, prop)
            if prop == "attributes":
                k0 = next(iter(c))
                c[k0] = [not c[k0][0]] + list(c[k0][1:]) + ["zz-injected"]
                c["zzInjectedAttr"] = [True, "a", ""]
            elif prop == "children":
                def first_el(x):
                    if x and isinstance(x[0], str):
                        return x
                    for y in x:
                        if isinstance(y, list):
                            r = first_el(y)
                            if r is not None:
                                return r
                    return None
                el = first_el(c)
                if el is None:
                    c.append(["zzChild", 0, None])
                else:
                    el[0], el[-1] = "zzRenamedChild", 7          # shape-preserving edit
            elif prop == "content_rules":
                c.append("anyContent")
            else:
                c.append("zz-injected")
            live_attrs = copy.deepcopy(R.rules_dict[rname][0])
            ctx.case(("alias-prop", rname, prop))
            ctx.count("aliasing_probes")
            for who, obj in (("kept Rule object", kept), ("fresh Rule object", R.Rule(rname))):
                q, v, pr = attr_facts(obj, rname, live_attrs, content)
                why = facts_match_table(q, v, pr, live_attrs)
                if why:
                    ctx.fail(f"C03:introspection-aliasing:{rname}",
                             f"after a caller edited the value of Rule.{prop}, queries and validation through the {who} no longer agree with the rule table: {why}",
                             {"kind": "impl-vs-statement", "rule": rname, "edited_property": prop, "through": who, "live_attribute_table": live_attrs,
                              "queries_after": q, "validation_after": v, "probe_assignments": pr})
            # this check itself edited the table through a property that exposes it: put the file copy back
            R.rules_dict[rname] = copy.deepcopy(pristine[rname])
        q, v, _ = attr_facts(R.Rule(rname), rname, rattrs0, content)
        if (q, v) != (q0, v0):
            ctx.fail(f"C03:introspection-aliasing:{rname}", "after the table entry was restored a fresh Rule object still reports/enforces something else",
                     {"kind": "impl-vs-statement", "rule": rname, "queries_before": q0, "queries_after": q, "validation_before": v0, "validation_after": v})



# ------------------------------------------------------------------ type-confusable unlisted values (lesson q)
CONFUSABLE = [False, True, 0, 1, 0.0, 1.0, None]


def confusable_phase(ctx, pristine):
    """Each of False/True/0/1/0.0/1.0/None is "one unlisted value" of an enumerated attribute (the table lists strings; the
    flag that leads a table entry is not a value): ATTRIBUTE_EXPECTED_ENUM for that attribute, in both modes."""
    from metapype.eml import rule as R
    from metapype.eml.exceptions import MetapypeRuleError
    from metapype.model.node import Node
    from harness import vtrees as VT
    for rname, rj in pristine.items():
        rattrs = rj[0]
        content = RL.canonical_content(rj)
        base = [(k, (sp[1] if len(sp) > 1 else "v")) for k, sp in rattrs.items() if sp[0] is True]
        for k, sp in rattrs.items():
            if len(sp) <= 1:
                continue
            for v in CONFUSABLE:
                n = RL.build_node("x", content, [kv for kv in base if kv[0] != k], [])
                n.add_attribute(k, v)
                errs, raised = [], None
                try:
                    VT.with_limit(lambda: R.Rule(rname).validate_rule(n, errs))
                except Exception as e:  # noqa
                    raised = type(e).__name__
                try:
                    VT.with_limit(lambda: R.Rule(rname).validate_rule(n))
                    ff = "OK"
                except MetapypeRuleError as e:
                    ff = type(e).__name__
                except Exception as e:  # noqa
                    ff = "CRASH:" + type(e).__name__
                Node.store.clear()
                got = [[e[0].name, e[3] if len(e) > 3 else None] for e in errs if e[0].name.startswith("ATTRIBUTE_")]
                ctx.case(("confusable", rname, k, repr(v)))
                ctx.count("type_confusable_values")
                if raised or ff.startswith("CRASH") or got != [["ATTRIBUTE_EXPECTED_ENUM", k]] or ff == "OK":
                    ctx.fail(f"C03:type-confusable:{rname}",
                             f"attribute {k!r} = {v!r} (not one of the listed values {sp[1:]}) : collecting mode reports {got}"
                             f"{' and raised ' + raised if raised else ''}, fail-fast gives {ff}; the statement implies exactly ATTRIBUTE_EXPECTED_ENUM",
                             {"kind": "impl-vs-statement", "rule": rname, "attribute": k, "value_repr": repr(v), "table_entry": sp,
                              "other_attributes": [kv for kv in base if kv[0] != k], "content": content,
                              "observed_attribute_records": got, "observed_ff": ff, "collecting_raised": raised})


def run(ctx):
    from metapype.eml import rule as R
    built = ctx.build(extra_targets=["theories/Model/RuleRun.v"])
    from harness import vtrees as VT
    pristine = VT.file_rules()          # the statement is computed from the file, never from the live table
    rules = RL.live_rules()
    limit = 4096 if ctx.tier == "thorough" else 600
    ctx.extra["rule"] = ("per rule: complete product of {absent, each listed value, one unlisted value} per declared attribute x "
                         "{no foreign, one foreign attribute} when the product is <= %d, else pairwise-covering + random; each "
                         "assignment in table order and in one shuffled order; non-trivial = distinct (rule, assignment, order) "
                         "with at least one attribute present or one required attribute absent" % limit)
    cases, wants, meta = [], [], []
    exhaustive = True
    for rname in list(rules):
        rj = pristine.get(rname, rules[rname])
        rattrs = rj[0]
        content = RL.canonical_content(rj)
        for attrs, complete in assignments(ctx, rattrs, limit):
            exhaustive = exhaustive and complete
            orders = [attrs]
            if len(attrs) > 1:
                sh = attrs[:]
                ctx.rng.shuffle(sh)
                if sh != attrs:
                    orders.append(sh)
            for a in orders:
                ff, codes = RL.impl_named_rule(rname, "x", content, a, [])
                exp = expected_violations(rattrs, a)
                got_attr = [c for c in codes if c.startswith("ATTRIBUTE_")]
                nontrivial = bool(a) or bool(exp)
                ctx.case((rname, tuple(a)), nontrivial)
                ctx.count("violations=%d" % min(len(exp), 3))
                # (S) the statement, directly on the implementation
                if got_attr != [k for k, _ in exp]:
                    ctx.fail(f"C03:collect:{rname}", f"collecting mode reports {got_attr}, statement implies {[k for k,_ in exp]}",
                             {"kind": "impl-vs-statement", "rule": rname, "attributes": a, "content": content,
                              "observed_codes": codes, "expected_attribute_codes": [k for k, _ in exp]})
                if any(c.startswith("CRASH") for c in codes) or ff.startswith("CRASH"):
                    ctx.fail(f"C03:crash:{rname}", f"non-rule exception escaped: ff={ff} codes={codes}",
                             {"kind": "impl-vs-statement", "rule": rname, "attributes": a, "content": content,
                              "observed_ff": ff, "observed_codes": codes})
                content_first = [c for c in codes if c.startswith("CONTENT_") or c == "UNKNOWN_CONTENT_RULE"]
                if exp and not content_first and ff != "MetapypeRuleError":
                    ctx.fail(f"C03:failfast:{rname}", f"fail-fast mode gave {ff} although an attribute constraint is violated",
                             {"kind": "impl-vs-statement", "rule": rname, "attributes": a, "content": content,
                              "observed_ff": ff, "expected_ff": "MetapypeRuleError"})
                if not exp and ff == "MetapypeRuleError" and not content_first:
                    ctx.fail(f"C03:failfast-spurious:{rname}", "fail-fast mode raised an attribute-level error with no violated constraint",
                             {"kind": "impl-vs-statement", "rule": rname, "attributes": a, "content": content, "observed_ff": ff})
                cases.append(RL.coq_rncase(rname, "x", content, a, []))
                wants.append(RL.coq_outcome((ff, codes)))
                meta.append({"rule": rname, "attributes": a, "content": content, "observed": [ff, codes]})
                ctx.sample({"rule": rname, "attributes": a, "observed_ff": ff, "observed_codes": codes}, limit=6)
        # introspection queries agree with what validation enforces
        r = R.Rule(rname)
        for k, spec in rattrs.items():
            ctx.case(("q", rname, k))
            req = r.is_required_attribute(k)
            vals = r.allowed_attribute_values(k)
            if bool(req) != (spec[0] is True) or list(vals) != list(spec[1:]):
                ctx.fail(f"C03:introspection:{rname}:{k}", f"introspection reports required={req} values={vals}, table enforces {spec}",
                         {"kind": "impl-vs-statement", "rule": rname, "attribute": k, "observed": [req, vals], "table": spec})
            # semantic agreement: omitting k is a violation iff required
            others = [(k2, (s2[1] if len(s2) > 1 else "v")) for k2, s2 in rattrs.items() if k2 != k]
            _, codes = RL.impl_named_rule(rname, "x", RL.canonical_content(rj), others, [])
            if ("ATTRIBUTE_REQUIRED" in codes) != bool(req):
                ctx.fail(f"C03:introspection-sem:{rname}:{k}", "is_required_attribute disagrees with validation of a node omitting the attribute",
                         {"kind": "impl-vs-statement", "rule": rname, "attribute": k, "codes": codes, "is_required": req})
        try:
            r.is_required_attribute(FOREIGN)
            ctx.fail(f"C03:introspection-unknown:{rname}", "is_required_attribute accepted an attribute the rule does not list", {"rule": rname})
        except Exception:
            pass
    ctx.extra["exhaustive"] = exhaustive
    # the table must be what the file says after all these validations and queries ...
    changed = VT.table_diff()
    if changed:
        ctx.fail("C03:history:table-mutated", f"validation/introspection changed the live rule table: {changed[:5]}",
                 {"kind": "impl-vs-statement", "rules_changed": changed, "live": {k: rules.get(k) for k in changed[:3]},
                  "file": {k: pristine.get(k) for k in changed[:3]}})
    # ... and the containers the introspection API hands out must not be a way to change what is reported/enforced
    confusable_phase(ctx, pristine)
    aliasing_phase(ctx, pristine)
    changed = VT.table_diff()
    if changed:
        ctx.fail("C03:history:table-mutated", f"the live rule table differs from rules.json after the aliasing phase restored it: {changed[:5]}",
                 {"kind": "impl-vs-statement", "rules_changed": changed})
    # (B) correspondence: model evaluated in Coq on the same cases
    bad, errors = RL.coq_compare(ctx, "corr", "run_rncase tb", cases, wants)
    ctx.extra["traces_validated_against_impl"] = len(cases) - len(bad)
    for name, out in errors:
        ctx.fail("corr:coq-error", f"case file {name} did not evaluate", {"kind": "broken-correspondence", "file": name, "output": out}, concrete=False)
    for i in bad[:5]:
        m = meta[i]
        exp = expected_violations(rules[m["rule"]][0], m["attributes"])
        ctx.fail(f"corr:{m['rule']}", "model and implementation disagree on attribute validation",
                 {"kind": "broken-correspondence", "theorem": "C03 (model/implementation correspondence)", "case": m,
                  "model": RL.coq_show(ctx, "corr", "run_rncase tb", cases[i]),
                  "statement_expects_attribute_codes": [k for k, _ in exp]}, concrete=False)
    if not built:
        ctx.obligations_failed("enumerated the full attribute abstraction against the implementation")

"""C03 — attribute validation enforces exactly required / allowed / enumerated.

Steps (DESIGN section 4): build the proof cone; enumerate the property's own
abstraction completely per rule; (B) model-vs-implementation correspondence
evaluated inside Coq; (S) implementation-vs-declarative-statement search in
Python (independent of the model); introspection queries."""
import itertools

from harness import rulelib as RL

FOREIGN = "zzForeign"
UNLISTED = "zz-unlisted"


def attr_domain(spec):
    """abstraction {absent, each listed value, one unlisted value}"""
    vals = [v for v in spec[1:] if isinstance(v, str)]
    # the empty string is a value like any other (present, not absent): it must never be
    # read as "missing" and is unlisted unless the table lists it
    if vals:
        return [None] + vals + [UNLISTED] + ([""] if "" not in vals else [])
    return [None, "v", ""]


def expected_violations(rattrs, attrs):
    """Declarative statement, from the property text. attrs: ordered (k, v) pairs.
    Returns list of (kind, attr) in the order: required (table order), then per node attribute."""
    out = []
    present = [k for k, _ in attrs]
    for k, spec in rattrs.items():
        if spec[0] is True and k not in present:
            out.append(("ATTRIBUTE_REQUIRED", k))
    for k, v in attrs:
        if k not in rattrs:
            out.append(("ATTRIBUTE_UNRECOGNIZED", k))
        elif len(rattrs[k]) > 1 and v not in rattrs[k][1:]:
            out.append(("ATTRIBUTE_EXPECTED_ENUM", k))
    return out


def assignments(ctx, rattrs, limit):
    keys = list(rattrs)
    doms = [attr_domain(rattrs[k]) for k in keys]
    total = 2
    for d in doms:
        total *= len(d)
    if total <= limit:
        for combo in itertools.product(*doms):
            for foreign in (False, True):
                yield [(k, v) for k, v in zip(keys, combo) if v is not None] + ([(FOREIGN, "f")] if foreign else []), True
    else:
        # pairwise-covering: all pairs of (attribute,value) choices, rest random; plus random fill
        seen = set()
        for i, j in itertools.combinations(range(len(keys)), 2):
            for vi in doms[i]:
                for vj in doms[j]:
                    combo = [ctx.rng.choice(d) for d in doms]
                    combo[i], combo[j] = vi, vj
                    foreign = ctx.rng.random() < 0.3
                    sig = (tuple(combo), foreign)
                    if sig in seen:
                        continue
                    seen.add(sig)
                    yield [(k, v) for k, v in zip(keys, combo) if v is not None] + ([(FOREIGN, "f")] if foreign else []), False
        while len(seen) < limit:
            combo = [ctx.rng.choice(d) for d in doms]
            foreign = ctx.rng.random() < 0.3
            sig = (tuple(combo), foreign)
            if sig in seen:
                continue
            seen.add(sig)
            yield [(k, v) for k, v in zip(keys, combo) if v is not None] + ([(FOREIGN, "f")] if foreign else []), False


def run(ctx):
    from metapype.eml import rule as R
    built = ctx.build(extra_targets=["theories/Model/RuleRun.v"])
    rules = RL.live_rules()
    limit = 4096 if ctx.tier == "thorough" else 600
    ctx.extra["rule"] = ("per rule: complete product of {absent, each listed value, one unlisted value} per declared attribute x "
                         "{no foreign, one foreign attribute} when the product is <= %d, else pairwise-covering + random; each "
                         "assignment in table order and in one shuffled order; non-trivial = distinct (rule, assignment, order) "
                         "with at least one attribute present or one required attribute absent" % limit)
    cases, wants, meta = [], [], []
    exhaustive = True
    for rname, rj in rules.items():
        rattrs = rj[0]
        content = RL.canonical_content(rj)
        for attrs, complete in assignments(ctx, rattrs, limit):
            exhaustive = exhaustive and complete
            orders = [attrs]
            if len(attrs) > 1:
                sh = attrs[:]
                ctx.rng.shuffle(sh)
                if sh != attrs:
                    orders.append(sh)
            for a in orders:
                ff, codes = RL.impl_named_rule(rname, "x", content, a, [])
                exp = expected_violations(rattrs, a)
                got_attr = [c for c in codes if c.startswith("ATTRIBUTE_")]
                nontrivial = bool(a) or bool(exp)
                ctx.case((rname, tuple(a)), nontrivial)
                ctx.count("violations=%d" % min(len(exp), 3))
                # (S) the statement, directly on the implementation
                if got_attr != [k for k, _ in exp]:
                    ctx.fail(f"C03:collect:{rname}", f"collecting mode reports {got_attr}, statement implies {[k for k,_ in exp]}",
                             {"kind": "impl-vs-statement", "rule": rname, "attributes": a, "content": content,
                              "observed_codes": codes, "expected_attribute_codes": [k for k, _ in exp]})
                if any(c.startswith("CRASH") for c in codes) or ff.startswith("CRASH"):
                    ctx.fail(f"C03:crash:{rname}", f"non-rule exception escaped: ff={ff} codes={codes}",
                             {"kind": "impl-vs-statement", "rule": rname, "attributes": a, "content": content,
                              "observed_ff": ff, "observed_codes": codes})
                content_first = [c for c in codes if c.startswith("CONTENT_") or c == "UNKNOWN_CONTENT_RULE"]
                if exp and not content_first and ff != "MetapypeRuleError":
                    ctx.fail(f"C03:failfast:{rname}", f"fail-fast mode gave {ff} although an attribute constraint is violated",
                             {"kind": "impl-vs-statement", "rule": rname, "attributes": a, "content": content,
                              "observed_ff": ff, "expected_ff": "MetapypeRuleError"})
                if not exp and ff == "MetapypeRuleError" and not content_first:
                    ctx.fail(f"C03:failfast-spurious:{rname}", "fail-fast mode raised an attribute-level error with no violated constraint",
                             {"kind": "impl-vs-statement", "rule": rname, "attributes": a, "content": content, "observed_ff": ff})
                cases.append(RL.coq_rncase(rname, "x", content, a, []))
                wants.append(RL.coq_outcome((ff, codes)))
                meta.append({"rule": rname, "attributes": a, "content": content, "observed": [ff, codes]})
                ctx.sample({"rule": rname, "attributes": a, "observed_ff": ff, "observed_codes": codes}, limit=6)
        # introspection queries agree with what validation enforces
        r = R.Rule(rname)
        for k, spec in rattrs.items():
            ctx.case(("q", rname, k))
            req = r.is_required_attribute(k)
            vals = r.allowed_attribute_values(k)
            if bool(req) != (spec[0] is True) or list(vals) != list(spec[1:]):
                ctx.fail(f"C03:introspection:{rname}:{k}", f"introspection reports required={req} values={vals}, table enforces {spec}",
                         {"kind": "impl-vs-statement", "rule": rname, "attribute": k, "observed": [req, vals], "table": spec})
            # semantic agreement: omitting k is a violation iff required
            others = [(k2, (s2[1] if len(s2) > 1 else "v")) for k2, s2 in rattrs.items() if k2 != k]
            _, codes = RL.impl_named_rule(rname, "x", RL.canonical_content(rj), others, [])
            if ("ATTRIBUTE_REQUIRED" in codes) != bool(req):
                ctx.fail(f"C03:introspection-sem:{rname}:{k}", "is_required_attribute disagrees with validation of a node omitting the attribute",
                         {"kind": "impl-vs-statement", "rule": rname, "attribute": k, "codes": codes, "is_required": req})
        try:
            r.is_required_attribute(FOREIGN)
            ctx.fail(f"C03:introspection-unknown:{rname}", "is_required_attribute accepted an attribute the rule does not list", {"rule": rname})
        except Exception:
            pass
    ctx.extra["exhaustive"] = exhaustive
    # (B) correspondence: model evaluated in Coq on the same cases
    bad, errors = RL.coq_compare(ctx, "corr", "run_rncase tb", cases, wants)
    ctx.extra["traces_validated_against_impl"] = len(cases) - len(bad)
    for name, out in errors:
        ctx.fail("corr:coq-error", f"case file {name} did not evaluate", {"kind": "broken-correspondence", "file": name, "output": out}, concrete=False)
    for i in bad[:5]:
        m = meta[i]
        exp = expected_violations(rules[m["rule"]][0], m["attributes"])
        ctx.fail(f"corr:{m['rule']}", "model and implementation disagree on attribute validation",
                 {"kind": "broken-correspondence", "theorem": "C03 (model/implementation correspondence)", "case": m,
                  "model": RL.coq_show(ctx, "corr", "run_rncase tb", cases[i]),
                  "statement_expects_attribute_codes": [k for k, _ in exp]}, concrete=False)
    if not built:
        ctx.obligations_failed("enumerated the full attribute abstraction against the implementation")

"""C11 — read-only operations never modify the tree.

The Coq side (Model/Effects.v, Proofs/C11_Frame.v) proves frame and order independence for
every program that stays within the EFFECT SUMMARY of its operation.  That the Python
operations stay within their summaries is what this harness establishes:

(S) = (B) for this property — deep snapshots (nodelib.deep_state: all fields, child ids in
    order, parent ids, identity classes of the three dicts and the child list, Node.store;
    plus which object every registry key maps to, and a fingerprint of the rule tables)
    before and after EACH call of EACH operation, error paths included; all ordered pairs
    of operations; random permutations of all calls; each call's RESULT (returned value /
    exception class / appended codes / produced string) compared with the result of the
    same call run alone on the fresh tree.
(T) attribute-access traces: during each call every read and every assignment of a field
    of a Node object and every access to Node.store is recorded (hooks installed on the
    class in this process only) and compared, inside Coq, with the operation's summary.
Trees: tests/data/eml.xml (and its subtrees as targets), small valid EML trees, invalid
trees, trees with markup characters / pre-escaped entities / <para> text in content, trees
with namespaces, prefixes, tails and extras."""
import contextlib
import copy
import io
import json
import os

from harness import common
from harness import nodelib as NL
from harness.common import cstr, clist

HEADER = "From MP Require Import Common.Base Model.Effects Model.EffectsRun.\n"

OPS = ["validate.node.ff", "validate.node.collect", "validate.tree.ff", "validate.tree.collect",
       "evaluate.node", "evaluate.tree", "metapype_io.to_json", "mp_io.to_json", "metapype_io.to_xml", "export.to_xml",
       "metapype_io.graph", "mp_io.graph", "find_child", "find_all_children", "find_descendant", "find_all_descendants",
       "find_single_node_by_path", "find_all_nodes_by_path", "get_ancestry", "child_index", "list_attributes",
       "attribute_value", "get_node_instance", "child_insert_index", "is_equal"]

FIELDS = {"_id": "FId", "_name": "FName", "_content": "FContent", "_tail": "FTail", "_prefix": "FPrefix",
          "_attributes": "FAttrs", "_extras": "FExtras", "_nsmap": "FNsmap", "_children": "FKids", "_parent": "FParent"}
FIELD_ORDER = ["FId", "FName", "FContent", "FTail", "FPrefix", "FAttrs", "FExtras", "FNsmap", "FKids", "FParent"]


# ------------------------------------------------------------------ tree specs (plain data, replayable)
class Ids:
    def __init__(self):
        self.k = 0

    def __call__(self):
        self.k += 1
        return "t%d" % self.k


def N(ids, name, content=None, attrs=(), kids=(), tail=None, prefix=None, extras=(), nsmap=()):
    return {"id": ids(), "name": name, "content": content, "tail": tail, "prefix": prefix,
            "attrs": [list(a) for a in attrs], "extras": [list(a) for a in extras], "nsmap": [list(a) for a in nsmap],
            "kids": list(kids)}


def person(ids, tag, role=False, orcid=True, email=True):
    kids = [N(ids, "individualName", kids=[N(ids, "givenName", "Chase"), N(ids, "surName", "Gaucho")])]
    if email:
        kids.append(N(ids, "electronicMailAddress", "a@b.c"))
    kids.append(N(ids, "userId", "0000-0001", attrs=[("directory", "https://orcid.org" if orcid else "other")]))
    if role:
        kids.append(N(ids, "role", "PI"))
    return N(ids, tag, kids=kids)


EMLNS = [("eml", "https://eml.ecoinformatics.org/eml-2.2.0"), ("xsi", "http://www.w3.org/2001/XMLSchema-instance")]


def small_specs():
    """(label, snapshot) — small trees of every kind the statement is quantified over"""
    out = []
    i = Ids()
    out.append(("valid:eml", N(i, "eml", attrs=[("packageId", "edi.23.1"), ("system", "metapype")], kids=[
        N(i, "dataset", kids=[N(i, "title", "Green sea turtle counts at Tortuga Island"), person(i, "creator"), person(i, "contact")])])))
    i = Ids()
    out.append(("valid:access", N(i, "access", attrs=[("authSystem", "pasta"), ("order", "allowFirst")], kids=[
        N(i, "allow", kids=[N(i, "principal", "public"), N(i, "permission", "read")]),
        N(i, "deny", kids=[N(i, "principal", "public"), N(i, "permission", "write")])])))
    i = Ids()
    out.append(("valid:dataset", N(i, "dataset", kids=[
        N(i, "title", "T"), person(i, "creator", orcid=False, email=False), person(i, "creator"),
        N(i, "abstract", kids=[N(i, "para", "some text, not twenty words")]),
        N(i, "keywordSet", kids=[N(i, "keyword", "k1"), N(i, "keyword", "k2")]),
        N(i, "keywordSet", kids=[N(i, "keyword", "k3")]),
        N(i, "keywordSet"),
        person(i, "contact"),
        N(i, "methods", kids=[N(i, "methodStep", kids=[N(i, "description", kids=[N(i, "para", "x")])])]),
        N(i, "project", kids=[N(i, "title", "P"), person(i, "personnel", role=True)])])))
    # one element of every kind the evaluator has a rule for, with the sub-structures its rules look at present in
    # one place and absent in another (physical / dataFormat / textFormat / externallyDefinedFormat / binaryRasterFormat)
    i = Ids()

    def physical(fmt):
        kids = [N(i, "objectName", "f.csv"), N(i, "size", "10", attrs=[("unit", "byte")]), N(i, "authentication", "abc", attrs=[("method", "MD5")])]
        if fmt == "text":
            kids.append(N(i, "dataFormat", kids=[N(i, "textFormat", kids=[N(i, "recordDelimiter", "\\n"), N(i, "attributeOrientation", "column"),
                                                                         N(i, "simpleDelimited", kids=[N(i, "fieldDelimiter", ",")])])]))
        elif fmt == "text-bare":
            kids.append(N(i, "dataFormat", kids=[N(i, "textFormat", kids=[N(i, "attributeOrientation", "column")])]))
        elif fmt == "external":
            kids.append(N(i, "dataFormat", kids=[N(i, "externallyDefinedFormat", kids=[N(i, "formatName", "NetCDF")])]))
        elif fmt == "raster":
            kids.append(N(i, "dataFormat", kids=[N(i, "binaryRasterFormat", kids=[N(i, "rowColumnOrientation", "column"), N(i, "nbits", "8"), N(i, "byteorder", "little")])]))
        elif fmt == "empty":
            kids.append(N(i, "dataFormat"))
        return N(i, "physical", kids=kids)

    def table(fmt, desc=True, nrec=True):
        kids = [N(i, "entityName", "t")]
        if desc:
            kids.append(N(i, "entityDescription", "a table"))
        if fmt is not None:
            kids.append(physical(fmt))
        kids.append(N(i, "attributeList", kids=[N(i, "attribute", kids=[N(i, "attributeName", "a"), N(i, "attributeDefinition", "d")])]))
        if nrec:
            kids.append(N(i, "numberOfRecords", "3"))
        return N(i, "dataTable", kids=kids)
    out.append(("entities", N(i, "dataset", kids=[
        N(i, "title", "A"), person(i, "creator"), person(i, "metadataProvider", orcid=False), person(i, "associatedParty", role=True, email=False),
        N(i, "intellectualRights", kids=[N(i, "para", "CC0")]),
        person(i, "contact"),
        N(i, "methods", kids=[N(i, "methodStep", kids=[N(i, "description")]),
                              N(i, "methodStep", kids=[N(i, "description", kids=[N(i, "para", "how")])])]),
        table("text"), table("text-bare", desc=False), table("external"), table("raster", nrec=False), table("empty"), table(None),
        N(i, "otherEntity", kids=[N(i, "entityName", "o"), N(i, "entityDescription", "d"), physical("external"), N(i, "entityType", "x")]),
        N(i, "otherEntity", kids=[N(i, "entityName", "o2"), N(i, "entityType", "x")])])))
    # sizes past 256: one parent with 300 children of one name
    i = Ids()
    out.append(("wide", N(i, "dataset", kids=[N(i, "title", "W"), person(i, "creator"),
                                              N(i, "keywordSet", kids=[N(i, "keyword", "k%d" % k) for k in range(300)]), person(i, "contact")])))
    # invalid: unknown node, wrong order, missing required child, content where none is allowed, foreign attribute
    i = Ids()
    out.append(("invalid:unknown-node", N(i, "dataset", kids=[N(i, "title", "T"), N(i, "fooBar", "x", kids=[N(i, "title", "inner")]), person(i, "creator"), person(i, "contact")])))
    i = Ids()
    out.append(("invalid:order+missing", N(i, "eml", attrs=[("system", "metapype"), ("bogus", "1")], kids=[
        N(i, "dataset", "stray content", kids=[person(i, "contact"), N(i, "title", None), person(i, "creator")])])))
    i = Ids()
    out.append(("invalid:access", N(i, "access", attrs=[("order", "neither")], kids=[
        N(i, "allow", kids=[N(i, "permission", "fly"), N(i, "principal", None)]), N(i, "title", "t")])))
    # markup characters, pre-escaped entities, <para> text
    i = Ids()
    out.append(("markup", N(i, "dataset", attrs=[("id", 'q"uo<te&'), ("scope", "a\tb\nc")], kids=[
        N(i, "title", "a<b & c > d \"q\" 'r'"),
        N(i, "title", "x &amp; y &lt; z"),
        person(i, "creator"),
        N(i, "abstract", "<para>in content</para> & more", kids=[N(i, "para", "&lt;para&gt;pre-escaped&lt;/para&gt;"), N(i, "para", "<para>raw</para>"),
                                                                   N(i, "markdown", "# h & <i>")]),
        N(i, "intellectualRights", kids=[N(i, "para", "]]> &#38; &gt;")]),
        person(i, "contact")])))
    # namespaces, prefixes, tails, extras; metadata subtree (opaque to validation)
    i = Ids()
    out.append(("namespaces", N(i, "eml", prefix="eml", attrs=[("packageId", "p.1.1"), ("system", "s")],
                                extras=[("xsi:schemaLocation", "https://eml.ecoinformatics.org/eml-2.2.0 eml.xsd")], nsmap=EMLNS, kids=[
        N(i, "dataset", nsmap=EMLNS, tail="\n  ", kids=[
            N(i, "title", "A title of five words here", nsmap=EMLNS + [("z", "urn:z")], extras=[("xml:lang", "en")], tail=" "),
            person(i, "creator"), person(i, "contact")]),
        N(i, "additionalMetadata", nsmap=EMLNS, kids=[
            N(i, "metadata", nsmap=EMLNS, kids=[N(i, "anything", "goes <here>", prefix="z", nsmap=[("z", "urn:other")], attrs=[("a", "<&>")],
                                                   kids=[N(i, "deeper", None, tail="t&t")])])])])))
    # a non-closed namespace map: a child lacking one of its parent's prefixes, a grandchild binding it differently
    i = Ids()
    out.append(("non-closed-ns", N(i, "dataset", nsmap=[("a", "urn:a"), ("b", "urn:b")], kids=[
        N(i, "title", "t", nsmap=[("b", "urn:b")], kids=[N(i, "para", "x", nsmap=[("a", "urn:other")])]),
        person(i, "creator"), person(i, "contact")])))
    return out


# documents with default-namespace declarations (prefix None in the imported maps), on the root and on nested elements
XML_SPECS = [
    ("default-ns:root", '<eml xmlns="https://eml.ecoinformatics.org/eml-2.2.0" xmlns:xsi="http://www.w3.org/2001/XMLSchema-instance" packageId="p.1.1" system="s">'
                        '<dataset><title>A title</title><creator><individualName><surName>S</surName></individualName></creator>'
                        '<contact><individualName><surName>S</surName></individualName></contact></dataset></eml>'),
    ("default-ns:nested", '<x:dataset xmlns:x="urn:x"><title xmlns="urn:inner" xml:lang="en">T<para>p</para></title>'
                          '<creator xmlns="urn:other"><individualName><surName>S</surName></individualName></creator><contact/></x:dataset>'),
]


CONTENTS = [None, "", " x ", "a\u00a0b  c", "12", "-3.5", "<&>", "&amp;", "2001-02-03", "word " * 25]
KNOWN = ["title", "creator", "contact", "para", "userId", "individualName", "surName", "description", "dataset", "keyword",
         "electronicMailAddress", "principal", "permission", "abstract", "metadata", "fooBar"]


def mutate_spec(rng, sn):
    """a random variant of a tree: attributes / content / children / names / namespace fields dropped, added,
    changed — so that operations also meet absent attributes, empty and odd content, missing and foreign children"""
    sn = copy.deepcopy(sn)
    nodes = []

    def coll(s, parent):
        nodes.append((s, parent))
        for k in s["kids"]:
            coll(k, s)
    coll(sn, None)
    how = []
    for _ in range(rng.choice([1, 2, 2, 3, 4])):
        s, parent = rng.choice(nodes)
        m = rng.choice(["drop-attr", "drop-attr", "add-attr", "set-attr", "content", "content", "drop-child", "swap-children",
                        "rename", "tail", "prefix", "extras", "nsmap", "dup-child"])
        if m == "drop-attr" and s["attrs"]:
            del s["attrs"][rng.randrange(len(s["attrs"]))]
        elif m == "drop-attr":
            # nothing to drop here: take a node that has attributes
            c = [x for x, _ in nodes if x["attrs"]]
            if c:
                x = rng.choice(c)
                del x["attrs"][rng.randrange(len(x["attrs"]))]
        elif m == "add-attr":
            k = rng.choice(["id", "scope", "system", "directory", "lang", "zz"])
            if k not in [a for a, _ in s["attrs"]]:
                s["attrs"].append([k, rng.choice(["v", "", "https://orcid.org", "document"])])
        elif m == "set-attr" and s["attrs"]:
            s["attrs"][rng.randrange(len(s["attrs"]))][1] = rng.choice(["", "other", "a<b", "allowFirst"])
        elif m == "content":
            s["content"] = rng.choice(CONTENTS)
        elif m == "drop-child" and s["kids"]:
            del s["kids"][rng.randrange(len(s["kids"]))]
        elif m == "swap-children" and len(s["kids"]) > 1:
            i, j = rng.sample(range(len(s["kids"])), 2)
            s["kids"][i], s["kids"][j] = s["kids"][j], s["kids"][i]
        elif m == "rename" and parent is not None:
            s["name"] = rng.choice(KNOWN)
        elif m == "tail":
            s["tail"] = rng.choice([None, "", " ", "t<&>"])
        elif m == "prefix":
            s["prefix"] = rng.choice([None, "eml", "z"])
        elif m == "extras":
            s["extras"] = rng.choice([[], [["xml:lang", "en"]], [["xsi:type", "a\"b"]]])
        elif m == "nsmap":
            s["nsmap"] = rng.choice([[], [["z", "urn:z"]], [list(x) for x in EMLNS]])
        elif m == "dup-child" and s["kids"]:
            c = copy.deepcopy(rng.choice(s["kids"]))
            s["kids"].insert(rng.randrange(len(s["kids"]) + 1), c)
        else:
            continue
        how.append(m)
    # ids unique again
    ids = Ids()

    def retag(s):
        s["id"] = ids()
        for k in s["kids"]:
            retag(k)
    retag(sn)
    return sn, how


def deletion_variants(sn):
    """every tree that lacks exactly one attribute / one content / one child subtree of sn"""
    paths = []

    def coll(s, path):
        paths.append(path)
        for i, k in enumerate(s["kids"]):
            coll(k, path + [i])
    coll(sn, [])

    def at(root, path):
        for i in path:
            root = root["kids"][i]
        return root
    for path in paths:
        s = at(sn, path)
        for a in range(len(s["attrs"])):
            v = copy.deepcopy(sn)
            del at(v, path)["attrs"][a]
            yield "attr", f"-{s['name']}@{s['attrs'][a][0]}", v
        if s["content"] is not None:
            v = copy.deepcopy(sn)
            at(v, path)["content"] = None
            yield "content", f"-{s['name']}.content", v
        if path:
            v = copy.deepcopy(sn)
            del at(v, path[:-1])["kids"][path[-1]]
            yield "child", f"-{s['name']}", v


AUX_NAMES = ["title", "creator", "contact", "para", "fooBar", "permission"]


def fresh(x):
    """a NEW str object with the same characters (never an interned literal / shared constant)"""
    if not isinstance(x, str):
        return x
    return "".join(list(x)) if len(x) != 1 else (x + "_")[:1]


def freshen(sn):
    return {"id": fresh(sn["id"]), "name": fresh(sn["name"]), "content": fresh(sn["content"]), "tail": fresh(sn["tail"]),
            "prefix": fresh(sn["prefix"]), "attrs": [[fresh(a), fresh(b)] for a, b in sn["attrs"]],
            "extras": [[fresh(a), fresh(b)] for a, b in sn["extras"]], "nsmap": [[fresh(a), fresh(b)] for a, b in sn["nsmap"]],
            "kids": [freshen(k) for k in sn["kids"]]}


class Env:
    """one forest: the tree, detached candidate children, an equal twin of the tree"""

    def __init__(self, spec):
        from metapype.model import metapype_io
        from metapype.model.node import Node
        self.spec = spec
        NL.reset_store()
        if "source" in spec or "xmltext" in spec:
            # imported once for its shape; rebuilt with deterministic ids (the importer draws uuids),
            # attached through add_child so that namespace maps are shared as the library shares them
            text = spec["xmltext"] if "xmltext" in spec else open(os.path.join(common.REPO, spec["source"]), encoding="utf-8").read()
            sn = NL.snapshot(metapype_io.from_xml(text))
            ids = Ids()

            def retag(s):
                s["id"] = ids()
                for k in s["kids"]:
                    retag(k)
            retag(sn)
            NL.reset_store()
            self.root = NL.build(sn, attach=True)
            tw = copy.deepcopy(sn)
            self._retag(tw)
            self.twin = NL.build(tw, attach=True)
        else:
            self.root = NL.build(freshen(spec["snapshot"]), attach=spec.get("attach", True))
            tw = copy.deepcopy(spec["snapshot"])
            self._retag(tw)
            self.twin = NL.build(freshen(tw), attach=spec.get("attach", True))
        self.aux = [Node(fresh(nm), id=fresh("aux%d" % k), content=(fresh("c") if k % 2 else None)) for k, nm in enumerate(AUX_NAMES)]
        self.roots = [self.root] + self.aux + [self.twin]
        self.tree_nodes = self._pre(self.root)
        self.nodes = self.tree_nodes + self.aux + self._pre(self.twin)
        self.index = {id(n): k for k, n in enumerate(self.nodes)}
        self.n_tree = len(self.tree_nodes)
        self.twin0 = self.n_tree + len(self.aux)
        # long-lived objects a caller may keep across calls: Rule instances and one error list
        self.kept_rules = {}
        self.kept_errs = []

    def kept_rule(self, node_name):
        from metapype.eml import rule
        if node_name not in self.kept_rules:
            self.kept_rules[node_name] = rule.get_rule(node_name)
        return self.kept_rules[node_name]

    @staticmethod
    def _retag(sn):
        sn["id"] = sn["id"] + "'"
        for k in sn["kids"]:
            Env._retag(k)

    @staticmethod
    def _pre(n):
        out = [n]
        for c in n.children:
            out.extend(Env._pre(c))
        return out

    def state(self):
        from metapype.model.node import Node
        from metapype.eml import rule
        st = NL.deep_state(self.roots)
        st["store_map"] = sorted((str(k), self.index.get(id(v), "foreign %s@%x" % (type(v).__name__, id(v)))) for k, v in Node.store.items())
        st["rules"] = hash(json.dumps([rule.rules_dict, rule.node_mappings], sort_keys=False, default=str))
        return st


def state_diff(a, b):
    if a["store"] != b["store"] or a["store_map"] != b["store_map"]:
        return "Node.store changed"
    if a["rules"] != b["rules"]:
        return "the rule tables changed"
    if len(a["nodes"]) != len(b["nodes"]):
        return f"reachable nodes {len(a['nodes'])} -> {len(b['nodes'])}"
    for x, y in zip(a["nodes"], b["nodes"]):
        for f in x:
            if x[f] != y[f]:
                return f"node {x['name']}[{x['id']}].{f}: {x[f]!r} -> {y[f]!r}"
    return "states differ"


# ------------------------------------------------------------------ results, canonical
def canon(env, v):
    from metapype.model.node import Node
    import enum
    if isinstance(v, Node):
        k = env.index.get(id(v))
        return {"node": k if k is not None else "foreign:" + str(v.id)}
    if isinstance(v, enum.Enum):
        return v.name
    if isinstance(v, (list, tuple)):
        return [canon(env, x) for x in v]
    if v is None or isinstance(v, (str, int, bool, float)):
        return v
    return "<" + type(v).__name__ + ">"


def canon_errs(env, errs):
    """appended entries: (code, message, node, *more) -> [code name, node, *more]; message text is not an observable"""
    out = []
    for e in errs:
        out.append([canon(env, e[0]), canon(env, e[2])] + [canon(env, x) for x in e[3:]])
    return out


def prepare(env, d):
    """one call descriptor -> (thunk performing exactly the library call, function canonicalising what it produced).
    Argument preparation and canonicalisation read node fields too; they stay outside the thunk so that
    traces contain the operation's own accesses only."""
    from metapype.eml import validate, evaluate, export, rule
    from metapype.model import metapype_io, mp_io
    from metapype.model.node import Node
    op = d["op"]
    n = env.nodes[d["t"]]
    ident = lambda v: v
    if d.get("kept") and op in ("validate.node.ff", "validate.node.collect") and n.name in rule.node_mappings:
        # what validate.node does, with a Rule instance and an error list the caller KEEPS across calls
        r = env.kept_rule(n.name)
        if op == "validate.node.ff":
            return (lambda: r.validate_rule(n, None)), ident
        errs = env.kept_errs
        k0 = len(errs)
        return (lambda: r.validate_rule(n, errs)), (lambda v: [v, canon_errs(env, errs[k0:])])
    if op == "validate.node.ff":
        return (lambda: validate.node(n)), ident
    if op == "validate.node.collect":
        errs = []
        return (lambda: validate.node(n, errs)), (lambda v: [v, canon_errs(env, errs)])
    if op == "validate.tree.ff":
        return (lambda: validate.tree(n)), ident
    if op == "validate.tree.collect":
        errs = []
        return (lambda: validate.tree(n, errs)), (lambda v: [v, canon_errs(env, errs)])
    if op == "evaluate.node":
        return (lambda: evaluate.node(n)), (lambda r: None if r is None else [[w[0], w[2]] for w in r])
    if op == "evaluate.tree":
        ws = []
        return (lambda: evaluate.tree(n, ws)), (lambda r: [r, [[w[0], w[2]] for w in ws]])
    if op == "metapype_io.to_json":
        indent = d.get("indent")
        return (lambda: metapype_io.to_json(n, indent=indent)), ident
    if op == "mp_io.to_json":
        return (lambda: mp_io.to_json(n)), ident
    if op == "metapype_io.to_xml":
        skip = d.get("skip_ns", False)
        return (lambda: metapype_io.to_xml(n, skip_ns=skip)), ident
    if op == "export.to_xml":
        return (lambda: export.to_xml(n)), ident
    if op == "metapype_io.graph":
        return (lambda: metapype_io.graph(n)), ident
    if op == "mp_io.graph":
        buf = io.StringIO()

        def go():
            with contextlib.redirect_stdout(buf):
                return mp_io.graph(n, 0)
        return go, (lambda r: [r, buf.getvalue()])
    if op == "find_child":
        return (lambda: n.find_child(fresh(d["name"]))), ident
    if op == "find_all_children":
        return (lambda: n.find_all_children(fresh(d["name"]))), ident
    if op == "find_descendant":
        return (lambda: n.find_descendant(fresh(d["name"]))), ident
    if op == "find_all_descendants":
        acc = [env.nodes[k] for k in d.get("seed", [])]
        return (lambda: n.find_all_descendants(fresh(d["name"]), acc)), (lambda r: [r, acc])
    if op == "find_single_node_by_path":
        path = [fresh(x) for x in d["path"]]
        return (lambda: n.find_single_node_by_path(path)), ident
    if op == "find_all_nodes_by_path":
        path = [fresh(x) for x in d["path"]]
        return (lambda: n.find_all_nodes_by_path(path)), ident
    if op == "get_ancestry":
        return (lambda: n.get_ancestry()), ident
    if op == "child_index":
        c = env.nodes[d["c"]]
        return (lambda: n.child_index(c)), ident
    if op == "list_attributes":
        return (lambda: n.list_attributes()), ident
    if op == "attribute_value":
        return (lambda: n.attribute_value(fresh(d["name"]))), ident
    if op == "get_node_instance":
        key = fresh(d["id"] if "id" in d else n.id)
        return (lambda: Node.get_node_instance(key)), ident
    if op == "child_insert_index":
        c = env.nodes[d["c"]]
        try:
            r = env.kept_rule(n.name) if d.get("kept") else rule.get_rule(n.name)        # building the Rule is not the operation
        except Exception as e:               # noqa
            cls = type(e).__name__
            return (lambda: "no rule: " + cls), ident
        return (lambda: r.child_insert_index(n, c)), ident
    if op == "is_equal":
        c = env.nodes[d["c"]]
        return (lambda: Node.is_equal(n, c)), ident
    raise RuntimeError("unknown operation " + op)


class ImplTimeout(BaseException):
    pass


def _alarm(signum, frame):
    raise ImplTimeout()


def perform(env, d, wrap=None, spoil=False):
    """run one call descriptor; returns {'ok': value} or {'raises': class name}.
    wrap(thunk) -> value runs the thunk under instrumentation.  spoil=True: after the result has been recorded, the
    list / dict the operation RETURNED is emptied by the caller — a returned container is the caller's to change,
    so this must not reach the tree (the snapshot taken next decides)."""
    import signal
    thunk, post = prepare(env, d)
    old = signal.signal(signal.SIGALRM, _alarm)
    signal.alarm(30)             # a call that does not come back is reported, it does not hang the check
    try:
        v = thunk() if wrap is None else wrap(thunk)
    except ImplTimeout:
        return {"raises": "DidNotTerminate"}
    except RecursionError:
        raise
    except Exception as e:  # noqa: the class is the observable
        return {"raises": type(e).__name__}
    finally:
        signal.alarm(0)
        signal.signal(signal.SIGALRM, old)
    res = {"ok": canon(env, post(v))}
    if spoil and isinstance(v, (list, dict)):
        v.clear()
    return res


def instances(env, rng, per_op=2):
    """call descriptors covering every operation, error paths included"""
    from metapype.eml import rule, evaluate
    n = env.n_tree
    tree = env.tree_nodes
    names = sorted({x.name for x in tree})
    absent = "noSuchElement"

    def pick(pred=None):
        c = [k for k in range(n) if pred is None or pred(tree[k])]
        return rng.choice(c) if c else 0

    def inner():
        return pick(lambda x: len(x.children) > 0)

    def rname():
        return rng.choice(names) if rng.random() < 0.75 else absent

    def path_from(k):
        p = []
        cur = tree[k]
        while cur.children and rng.random() < 0.8:
            cur = rng.choice(cur.children)
            p.append(cur.name)
        if rng.random() < 0.25:
            p.append(absent)
        return p

    out = []
    for _ in range(per_op):
        out.append({"op": "validate.node.ff", "t": pick()})
        out.append({"op": "validate.node.collect", "t": pick()})
        out.append({"op": "evaluate.node", "t": pick(lambda x: x.name in evaluate.rules)})
        out.append({"op": "find_child", "t": inner(), "name": rname()})
        out.append({"op": "find_all_children", "t": inner(), "name": rname()})
        out.append({"op": "find_descendant", "t": inner(), "name": rname()})
        out.append({"op": "find_all_descendants", "t": inner(), "name": rname(), "seed": [pick()] if rng.random() < 0.3 else []})
        k = inner()
        out.append({"op": "find_single_node_by_path", "t": k, "path": path_from(k)})
        k = inner()
        out.append({"op": "find_all_nodes_by_path", "t": k, "path": path_from(k)})
        out.append({"op": "get_ancestry", "t": pick()})
        out.append({"op": "list_attributes", "t": pick(lambda x: len(x.attributes) > 0) if rng.random() < 0.7 else pick()})
        k = pick(lambda x: len(x.attributes) > 0)
        out.append({"op": "attribute_value", "t": k, "name": (rng.choice(list(tree[k].attributes)) if tree[k].attributes and rng.random() < 0.7 else "nope")})
        out.append({"op": "get_node_instance", "t": pick()})
        k = inner()
        kid = env.index[id(rng.choice(tree[k].children))] if tree[k].children else 0
        out.append({"op": "child_index", "t": k, "c": kid if rng.random() < 0.7 else env.n_tree})      # foreign node: logs, returns None
        k = pick(lambda x: x.name in rule.node_mappings and len(x.children) > 0)
        out.append({"op": "child_insert_index", "t": k, "c": env.n_tree + rng.randrange(len(env.aux))})
        out.append({"op": "is_equal", "t": pick(), "c": pick()})
    # queries on childless nodes
    leaf = lambda: pick(lambda x: len(x.children) == 0)
    out.append({"op": "find_child", "t": leaf(), "name": rname()})
    out.append({"op": "find_all_children", "t": leaf(), "name": rname()})
    out.append({"op": "find_descendant", "t": leaf(), "name": rname()})
    out.append({"op": "find_all_descendants", "t": leaf(), "name": rname(), "seed": []})
    out.append({"op": "find_single_node_by_path", "t": leaf(), "path": [rname()]})
    out.append({"op": "find_all_nodes_by_path", "t": leaf(), "path": [rname(), rname()]})
    # the same operations through objects the caller keeps (Rule instances, one error list)
    for _ in range(2):
        out.append({"op": "validate.node.ff", "t": pick(), "kept": True})
        out.append({"op": "validate.node.collect", "t": pick(), "kept": True})
        k = pick(lambda x: x.name in rule.node_mappings and len(x.children) > 0)
        out.append({"op": "child_insert_index", "t": k, "c": env.n_tree + rng.randrange(len(env.aux)), "kept": True})
    out.append({"op": "validate.tree.ff", "t": 0})
    out.append({"op": "validate.tree.collect", "t": 0})
    out.append({"op": "validate.tree.collect", "t": inner()})
    out.append({"op": "evaluate.tree", "t": 0})
    out.append({"op": "evaluate.node", "t": 0})
    out.append({"op": "metapype_io.to_json", "t": 0})
    out.append({"op": "metapype_io.to_json", "t": inner(), "indent": 2})
    out.append({"op": "mp_io.to_json", "t": 0})
    out.append({"op": "metapype_io.to_xml", "t": 0})
    out.append({"op": "metapype_io.to_xml", "t": inner(), "skip_ns": True})
    out.append({"op": "export.to_xml", "t": 0})
    out.append({"op": "export.to_xml", "t": inner()})
    out.append({"op": "metapype_io.graph", "t": 0})
    out.append({"op": "mp_io.graph", "t": 0})
    out.append({"op": "find_single_node_by_path", "t": 0, "path": []})
    out.append({"op": "find_all_nodes_by_path", "t": 0, "path": []})
    out.append({"op": "get_node_instance", "t": 0, "id": "no-such-id"})
    out.append({"op": "is_equal", "t": 0, "c": env.twin0})          # equal twin
    out.append({"op": "is_equal", "t": 0, "c": 0})                  # same object
    out.append({"op": "child_insert_index", "t": 0, "c": env.n_tree + AUX_NAMES.index("fooBar")})   # refused
    return out


# ------------------------------------------------------------------ tracing (T)
class TracingDict(dict):
    def __init__(self, src, log):
        super().__init__(src)
        self._log = log

    def _r(self):
        self._log["store_read"] = True

    def _w(self):
        self._log["store_write"] = True

    def __getitem__(self, k):
        self._r()
        return super().__getitem__(k)

    def get(self, k, d=None):
        self._r()
        return super().get(k, d)

    def __contains__(self, k):
        self._r()
        return super().__contains__(k)

    def __iter__(self):
        self._r()
        return super().__iter__()

    def __len__(self):
        self._r()
        return super().__len__()

    def keys(self):
        self._r()
        return super().keys()

    def items(self):
        self._r()
        return super().items()

    def values(self):
        self._r()
        return super().values()

    def __setitem__(self, k, v):
        self._w()
        super().__setitem__(k, v)

    def __delitem__(self, k):
        self._w()
        super().__delitem__(k)

    def pop(self, *a):
        self._w()
        return super().pop(*a)

    def popitem(self):
        self._w()
        return super().popitem()

    def clear(self):
        self._w()
        super().clear()

    def update(self, *a, **k):
        self._w()
        super().update(*a, **k)

    def setdefault(self, *a):
        self._w()
        return super().setdefault(*a)


def traced(env, d):
    """perform(d) with every field read / assignment on Node objects and every registry
    access recorded.  Hooks live on the class object of THIS process for the duration of the call."""
    from metapype.model.node import Node
    log = {"reads": set(), "writes": set(), "store_read": False, "store_write": False}

    def ga(obj, name):
        if name in FIELDS:
            log["reads"].add(name)
        return object.__getattribute__(obj, name)

    def sa(obj, name, value):
        log["writes"].add(name)
        object.__setattr__(obj, name, value)

    def da(obj, name):
        log["writes"].add(name)
        object.__delattr__(obj, name)
    def wrap(thunk):
        orig = Node.store
        Node.store = TracingDict(orig, log)
        Node.__getattribute__ = ga
        Node.__setattr__ = sa
        Node.__delattr__ = da
        try:
            return thunk()
        finally:
            del Node.__getattribute__
            del Node.__setattr__
            del Node.__delattr__
            after = dict(dict.items(Node.store))
            Node.store = orig
            if log["store_write"]:
                orig.clear()
                orig.update(after)
    res = perform(env, d, wrap)
    return res, log


def coq_trace(d, log):
    reads = [FIELDS[f] for f in sorted(log["reads"])]
    writes = [FIELDS[f] for f in sorted(log["writes"]) if f in FIELDS]
    return ("{| t_op := " + cstr(d["op"]) + "; t_reads := " + clist(reads) + "; t_store_read := " + common.cbool(log["store_read"]) +
            "; t_writes := " + clist(writes) + "; t_store_write := " + common.cbool(log["store_write"]) + " |}")


# ------------------------------------------------------------------ the runs
def name_paths(node, depth):
    """all name paths of length 1..depth that lead from node to some descendant"""
    out = set()
    if depth == 0:
        return out
    for c in node.children:
        out.add((c.name,))
        for p in name_paths(c, depth - 1):
            out.add((c.name,) + p)
    return out


def sweep_calls(env, rng, starts):
    """path queries that fan out: every name path up to length 3 from each start node (all branches carrying the
    same names are followed at once by the query), the same with an absent last step, and every query on every
    childless start"""
    out = []
    for k in starts:
        n = env.nodes[k]
        paths = sorted(name_paths(n, 3))
        for p in paths:
            out.append({"op": "find_all_nodes_by_path", "t": k, "path": list(p)})
            out.append({"op": "find_single_node_by_path", "t": k, "path": list(p)})
        for p in (rng.sample(paths, 3) if len(paths) > 3 else paths):
            out.append({"op": "find_all_nodes_by_path", "t": k, "path": list(p) + ["noSuchElement"]})
        for nm in sorted({p[0] for p in paths}) or ["title"]:
            out.append({"op": "find_all_children", "t": k, "name": nm})
            out.append({"op": "find_all_descendants", "t": k, "name": nm, "seed": []})
        if not n.children:
            out.append({"op": "find_child", "t": k, "name": "title"})
            out.append({"op": "find_descendant", "t": k, "name": "title"})
            out.append({"op": "find_all_nodes_by_path", "t": k, "path": ["title", "para"]})
            out.append({"op": "find_single_node_by_path", "t": k, "path": ["title"]})
    return out


def related_calls(env, starts):
    """arguments that are already related: child_insert_index with every EXISTING child of the parent (and every detached
    candidate), is_equal of a node with itself, with each of its own children, with its twin; evaluate / validate of every
    start node; get_node_instance of every start"""
    from metapype.eml import rule, evaluate
    out = []
    for k in starts:
        n = env.nodes[k]
        out.append({"op": "is_equal", "t": k, "c": k})
        if k < env.n_tree:
            out.append({"op": "is_equal", "t": k, "c": env.twin0 + k})
        out.append({"op": "get_node_instance", "t": k})
        if n.name in evaluate.rules:
            out.append({"op": "evaluate.node", "t": k})
        out.append({"op": "validate.node.collect", "t": k})
        kids = list(n.children)
        if len(kids) > 12:          # many children: the first, the last and some in between (all of them in small trees)
            kids = kids[:4] + kids[len(kids) // 2 - 2:len(kids) // 2 + 2] + kids[-4:]
        for c in kids:
            ci = env.index[id(c)]
            out.append({"op": "is_equal", "t": k, "c": ci})
            out.append({"op": "is_equal", "t": ci, "c": k})
            out.append({"op": "child_index", "t": k, "c": ci})
            if n.name in rule.node_mappings:
                out.append({"op": "child_insert_index", "t": k, "c": ci})
                out.append({"op": "child_insert_index", "t": k, "c": ci, "kept": True})
        if n.name in rule.node_mappings and n.children:
            for a in range(len(env.aux)):
                out.append({"op": "child_insert_index", "t": k, "c": env.n_tree + a})
    return out


def random_edits(env, rng, k=4):
    """in-place edits through the public API that keep the set and order of nodes"""
    out = []
    for _ in range(k):
        i = rng.randrange(env.n_tree)
        kind = rng.choice(["content", "attr", "attr-del", "tail", "extras", "prefix", "ns", "attr-direct", "nsmap-direct", "extras-direct"])
        if kind == "content":
            out.append(["content", i, rng.choice(["edited <&>", None, "", "12", "word " * 22])])
        elif kind == "attr":
            out.append(["attr", i, rng.choice(["id", "directory", "system", "zz"]), rng.choice(["e", "https://orcid.org", ""])])
        elif kind == "attr-del":
            out.append(["attr-del", i])
        elif kind == "tail":
            out.append(["tail", i, rng.choice([None, "t<&>"])])
        elif kind == "extras":
            out.append(["extras", i, "xml:lang", "fr"])
        elif kind == "prefix":
            out.append(["prefix", i, rng.choice([None, "eml", "q"])])
        elif kind == "attr-direct":
            out.append(["attr-direct", i, rng.choice(["id", "directory", "zz"]), rng.choice(["", "d"])])
        elif kind == "nsmap-direct":
            out.append(["nsmap-direct", i, rng.choice(["q", "eml"]), rng.choice(["", "urn:direct"])])
        elif kind == "extras-direct":
            out.append(["extras-direct", i, "xsi:type", "x"])
        else:
            out.append(["ns", i, rng.choice(["q", "eml"]), "urn:edited"])
    return out


def apply_edits(env, edits):
    for e in edits:
        n = env.nodes[e[1]]
        if e[0] == "content":
            n.content = e[2]
        elif e[0] == "attr":
            n.add_attribute(e[2], e[3])
        elif e[0] == "attr-del":
            if n.attributes:
                n.remove_attribute(list(n.attributes)[0])
        elif e[0] == "tail":
            n.tail = e[2]
        elif e[0] == "extras":
            n.add_extras(e[2], e[3])
        elif e[0] == "prefix":
            n.prefix = e[2]
        elif e[0] == "ns":
            n.add_namespace(e[2], e[3])
        elif e[0] == "attr-direct":          # legal edits through the exposed properties
            n.attributes[fresh(e[2])] = fresh(e[3])
        elif e[0] == "nsmap-direct":
            n.nsmap[fresh(e[2])] = fresh(e[3])
        elif e[0] == "extras-direct":
            n.extras[fresh(e[2])] = fresh(e[3])


def after_edits_vs_fresh(spec, calls, edits):
    """results of `calls` on the SAME objects after: all calls once, then the edits — and on a freshly built tree
    with the edited values. Returns (results_same_objects, results_fresh, edited_snapshot)."""
    env = Env(spec)
    s0 = env.state()
    for d in calls:
        perform(env, d)
    if env.state() != s0:
        return None          # some call modified the tree: reported by the snapshot checks, nothing to attribute here
    apply_edits(env, edits)
    same = [perform(env, d) for d in calls]
    sn2 = NL.snapshot(env.root)
    env2 = Env({"snapshot": sn2, "attach": False})
    fresh = [perform(env2, d) for d in calls]
    return same, fresh, sn2


def sweep_starts(env, rng, cap=130, n_inner=40, n_leaves=8):
    """every node of a small tree; of a big one the root, inner nodes and a few leaves"""
    if env.n_tree <= cap:
        return list(range(env.n_tree))
    inner = [k for k in range(env.n_tree) if env.tree_nodes[k].children]
    leaves = [k for k in range(env.n_tree) if not env.tree_nodes[k].children]
    return sorted(set([0] + (inner if len(inner) <= n_inner else rng.sample(inner, n_inner)) + rng.sample(leaves, min(n_leaves, len(leaves)))))


class Runner:
    def __init__(self, ctx, spec, label, rng, per_op):
        self.ctx = ctx
        self.spec = spec
        self.label = label
        self.rng = rng
        self.per_op = per_op
        self.fresh()
        self.calls = instances(self.env, rng, per_op)
        self.base = None

    def fresh(self):
        self.env = Env(self.spec)
        self.s0 = self.env.state()

    def replay_obj(self, seq, extra):
        return {"kind": "impl-vs-statement", "tree": self.spec, "tree_label": self.label, "aux_names": AUX_NAMES,
                "calls": seq, **extra}

    def check_state(self, seq, op):
        """after the last call of seq: state must equal the initial state"""
        s1 = self.env.state()
        if s1 != self.s0:
            self.ctx.fail("C11:" + op, f"{op} changed the state it was given: " + state_diff(self.s0, s1),
                          self.replay_obj(seq, {"changed": state_diff(self.s0, s1)}))
            self.fresh()     # continue on an unmodified tree
            return False
        return True

    def timed(self, name, fn, *a, **kw):
        import time
        t0 = time.time()
        fn(*a, **kw)
        acc = self.ctx.extra.setdefault("seconds_by_phase", {})
        key = name + ":" + self.label.split(":")[0]
        acc[key] = round(acc.get(key, 0.0) + time.time() - t0, 2)

    def singles(self, repeat=True):
        self.base = []
        for d in self.calls:
            r = perform(self.env, d, spoil=True)
            self.base.append(r)
            self.ctx.case((self.label, json.dumps(d, sort_keys=True)), nontrivial=True)
            self.ctx.count("op:" + d["op"])
            self.ctx.count("result:" + ("raises " + r["raises"] if "raises" in r else "returns"))
            if not self.check_state([d], d["op"]) or not repeat:
                continue
            r2 = perform(self.env, d)
            if r2 != r:
                self.ctx.fail("C11:" + d["op"], f"{d['op']} returns something else when repeated on the same tree",
                              self.replay_obj([d, d], {"first": r, "second": r2}))
            self.check_state([d, d], d["op"])

    def sequence(self, idxs, kind):
        """run the calls idxs in this order; each result must be the stand-alone result"""
        seq = []
        for i in idxs:
            d = self.calls[i]
            seq.append(d)
            r = perform(self.env, d)
            self.ctx.case(None, nontrivial=False)
            if r != self.base[i]:
                self.ctx.fail("C11:" + d["op"], f"result of {d['op']} depends on what ran before it ({kind})",
                              self.replay_obj(list(seq), {"alone": self.base[i], "in_sequence": r}))
            if not self.check_state(list(seq), d["op"]):
                return False
        return True

    def pairs(self, limit=None):
        by_op = {}
        for i, d in enumerate(self.calls):
            by_op.setdefault(d["op"], []).append(i)
        todo = [(a, b) for a in OPS for b in OPS]
        if limit is not None and limit < len(todo):
            todo = self.rng.sample(todo, limit)
        for a, b in todo:
            ia, ib = self.rng.choice(by_op[a]), self.rng.choice(by_op[b])
            self.sequence([ia, ib], "ordered pair")
            self.ctx.count("ordered pairs")

    def permutations(self, k):
        idx = list(range(len(self.calls)))
        for _ in range(k):
            self.rng.shuffle(idx)
            self.sequence(list(idx), "permutation")
            self.ctx.count("permutations")

    def sweep(self, starts):
        calls = sweep_calls(self.env, self.rng, starts) + related_calls(self.env, starts)
        for d in calls:
            r = perform(self.env, d, spoil=True)
            self.ctx.case((self.label, json.dumps(d, sort_keys=True)), nontrivial=True)
            self.ctx.count("path sweep calls")
            if not self.check_state([d], d["op"]):
                continue
            if self.env.n_tree <= 60:
                r2 = perform(self.env, d)
                if r2 != r:
                    self.ctx.fail("C11:" + d["op"], f"{d['op']} returns something else when repeated on the same tree",
                                  self.replay_obj([d, d], {"first": r, "second": r2}))
                self.check_state([d, d], d["op"])

    def edited(self, rounds):
        """statelessness: every call again on the same objects after in-place edits == on a fresh identical tree"""
        calls = [d for d in self.calls if d.get("c", 0) < self.env.twin0]
        for _ in range(rounds):
            edits = random_edits(self.env, self.rng)
            res = after_edits_vs_fresh(self.spec, calls, edits)
            if res is None:
                continue
            same, fresh, sn2 = res
            self.ctx.count("edit-then-repeat rounds")
            for d, a, b in zip(calls, same, fresh):
                self.ctx.case(None, nontrivial=False)
                if a != b:
                    self.ctx.fail("C11:" + d["op"], f"result of {d['op']} on a tree edited in place differs from its result on a freshly built "
                                  "identical tree (something remembered from earlier calls, or an earlier call of this sequence modified the edited tree)",
                                  self.replay_obj(calls, {"edits": edits, "call": d, "same_objects": a, "fresh_tree": b}))
                    break
        self.fresh()

    def traces(self, out):
        for d in self.calls:
            res, log = traced(self.env, d)
            out.append((d, log, self.label))
            unknown = sorted(f for f in log["writes"] if f not in FIELDS)
            if unknown:
                self.ctx.fail("corr:trace:" + d["op"], f"{d['op']} assigns attribute(s) {unknown} on a Node object",
                              self.replay_obj([d], {"assigned": unknown}), concrete=False)
            self.check_state([d], d["op"])


def run(ctx, only_spec=None):
    import time
    t_start = time.time()
    built = ctx.build(extra_targets=["theories/Model/EffectsRun.v"])
    t_built = time.time()
    thorough = ctx.tier == "thorough"
    rng = ctx.rng
    ctx.extra["rule"] = ("every operation of the summary table, 2+ call instances each (random targets, names present and absent, paths, "
                         "error paths) per tree; per tree: each call alone with a deep snapshot before/after and repeated once; all ordered "
                         "pairs of operations; random permutations of all calls with a snapshot after every call; non-trivial = distinct "
                         "(tree, call descriptor)")
    specs = [(lbl, {"snapshot": sn, "attach": lbl != "non-closed-ns"}) for lbl, sn in small_specs()]
    specs += [(lbl, {"xmltext": xml}) for lbl, xml in XML_SPECS]
    full = ("eml.xml", {"source": os.path.join("tests", "data", "eml.xml")})
    n_perm = 2000 if thorough else 100
    traces = []
    for k, (lbl, spec) in enumerate(specs):
        r = Runner(ctx, spec, lbl, rng, per_op=2)
        ctx.count("tree:" + lbl.split(":")[0])
        big = r.env.n_tree > 130
        r.timed("singles", r.singles)
        r.timed("sweep", r.sweep, sweep_starts(r.env, rng) if (thorough or not big) else sweep_starts(r.env, rng, n_inner=6, n_leaves=3))
        r.timed("pairs", r.pairs, limit=150 if (big and not thorough) else None)
        share = n_perm // len(specs) + (1 if k < n_perm % len(specs) else 0)
        r.timed("permutations", r.permutations, share if (thorough or not big) else 2)
        r.timed("edited", r.edited, 6 if thorough else 2)
        r.timed("traces", r.traces, traces)
    # random variants of the small trees (attributes / content / children dropped, added, changed)
    bases = [b for b in small_specs() if b[0] != "wide"]
    n_var = 120 if thorough else 14
    for k in range(n_var):
        lbl, sn = bases[k % len(bases)]
        vsn, how = mutate_spec(rng, sn)
        r = Runner(ctx, {"snapshot": vsn, "attach": True}, "variant:" + lbl + ":" + "+".join(how), rng, per_op=2)
        ctx.count("tree:variant")
        r.timed("singles", r.singles)
        r.timed("sweep", r.sweep, sweep_starts(r.env, rng) if thorough else sweep_starts(r.env, rng, cap=0, n_inner=5, n_leaves=3))
        r.timed("pairs", r.pairs, limit=120 if thorough else 80)
        r.timed("permutations", r.permutations, 3 if thorough else 2)
        r.timed("edited", r.edited, 1)
        if k < 8:
            r.timed("traces", r.traces, traces)
    # single deletions: every attribute (all of them), contents and child subtrees (a sample in the quick tier)
    dels = {"attr": [], "content": [], "child": []}
    for lbl, sn in bases:
        for kind, what, vsn in deletion_variants(sn):
            dels[kind].append((lbl + ":" + what, vsn))
    for kind in ("content", "child"):
        if not thorough and len(dels[kind]) > 10:
            dels[kind] = rng.sample(dels[kind], 10)
    for kind in ("attr", "content", "child"):
        for lbl, vsn in dels[kind]:
            r = Runner(ctx, {"snapshot": vsn, "attach": True}, "without:" + lbl, rng, per_op=1)
            ctx.count("tree:without-one-" + kind)
            r.timed("singles", r.singles, repeat=thorough)
            if thorough or r.env.n_tree <= 60:
                r.timed("permutations", r.permutations, 1)
    if os.path.exists(os.path.join(common.REPO, full[1]["source"])):
        r = Runner(ctx, full[1], full[0], rng, per_op=3)
        ctx.count("tree:eml.xml")
        ctx.extra["eml_xml_nodes"] = r.env.n_tree
        r.timed("singles", r.singles)
        inner = [k for k in range(r.env.n_tree) if r.env.tree_nodes[k].children]
        r.timed("sweep", r.sweep, [0] + rng.sample(inner, min(len(inner), 40 if thorough else 8)) +
                rng.sample([k for k in range(r.env.n_tree) if k not in inner], 5))
        r.timed("edited", r.edited, 3 if thorough else 1)
        r.timed("pairs", r.pairs, limit=None if thorough else 80)
        r.timed("permutations", r.permutations, 10 if thorough else 2)
        r.timed("traces", r.traces, traces)
    NL.reset_store()
    # every operation was exercised
    missing = [o for o in OPS if not ctx.dist.get("op:" + o)]
    if missing:
        ctx.fail("harness:coverage", f"operations never exercised: {missing}", {"missing": missing}, concrete=False)

    t_impl = time.time()
    # (T) traces against the summaries, inside Coq
    jobs = []
    shard = 250
    jobs.append(("C11_ops", HEADER + "Eval vm_compute in same_ops " + clist(cstr(o) for o in OPS) + ".\n"))
    for i in range(0, len(traces), shard):
        jobs.append((f"C11_traces_{i // shard}", HEADER + "Definition traces : list trace := " +
                     clist(coq_trace(d, log) for d, log, _ in traces[i:i + shard]) + ".\nEval vm_compute in bad_traces traces.\n"))
    seen = {}
    for d, log, _ in traces:
        seen.setdefault(d["op"], set()).update(FIELDS[f] for f in log["reads"])
    jobs.append(("C11_unused", HEADER + "".join(
        f"Eval vm_compute in unused {cstr(o)} {clist(sorted(seen.get(o, [])))}.\n" for o in OPS)))
    results = common.coq_eval_many(jobs)
    ok_traces = 0
    for (name, _), (rc, out) in zip(jobs, results):
        vals = common.parse_eval_values(out) if rc == 0 else []
        if name == "C11_ops":
            if rc != 0 or vals != ["true"]:
                ctx.fail("tie:operations", "the harness's operation list differs from the summary table's (Model/Effects.v: all_ops)",
                         {"kind": "broken-correspondence", "harness_ops": OPS, "output": out[-600:]}, concrete=False)
        elif name == "C11_unused":
            if rc == 0 and len(vals) == len(OPS):
                un = {}
                for o, v in zip(OPS, vals):
                    codes = common.parse_nat_list(v)
                    if codes:
                        un[o] = [FIELD_ORDER[c] for c in codes]
                ctx.extra["summary_reads_never_observed"] = un
        else:
            base = int(name.rsplit("_", 1)[1]) * shard
            if rc != 0 or len(vals) != 1:
                ctx.fail("corr:coq-error", f"case file {name} did not evaluate", {"kind": "broken-correspondence", "file": name, "output": out[-1500:]}, concrete=False)
                continue
            bad = common.parse_nat_list(vals[0])
            ok_traces += len(traces[base:base + shard]) - len(bad)
            for b in bad[:5]:
                d, log, lbl = traces[base + b]
                ctx.fail("corr:trace:" + d["op"], f"{d['op']} touches more than its effect summary allows: reads {sorted(log['reads'])}, "
                         f"assigns {sorted(log['writes'])}, registry read={log['store_read']} write={log['store_write']}",
                         {"kind": "broken-correspondence", "theorem": "C11 (effect summary of " + d["op"] + ")", "tree_label": lbl, "call": d,
                          "reads": sorted(log["reads"]), "assigns": sorted(log["writes"]), "store_read": log["store_read"], "store_write": log["store_write"]},
                         concrete=False)
    ctx.extra["traces_validated_against_impl"] = ok_traces
    ctx.extra["phase_seconds"] = {"build_incl_lock_wait": round(t_built - t_start, 1), "implementation_runs": round(t_impl - t_built, 1),
                                  "trace_check_in_coq": round(time.time() - t_impl, 1)}
    ctx.extra["observed_reads_per_operation"] = {o: sorted(v) for o, v in seen.items()}
    ctx.sample({"tree": "valid:eml", "calls": [c for c in Runner(ctx, specs[0][1], specs[0][0], rng, 1).calls[:6]]})
    NL.reset_store()
    if not built:
        ctx.obligations_failed("deep snapshots around every call, ordered pairs and permutations of all read-only operations")


def replay(ctx, data):
    """re-run a recorded call sequence on the recorded tree"""
    rp = data["replay"]
    print(json.dumps({k: rp[k] for k in rp if k != "tree"}, indent=1)[:3000])
    if rp.get("edits"):
        res = after_edits_vs_fresh(rp["tree"], rp["calls"], rp["edits"])
        same, fresh = (res[0], res[1]) if res is not None else ([], [])
        for d, a, b in zip(rp["calls"], same, fresh):
            if a != b:
                ctx.fail("C11:" + d["op"], f"result of {d['op']} on a tree edited in place differs from its result on a freshly built identical tree", rp)
                break
        NL.reset_store()
        return
    env = Env(rp["tree"])
    s0 = env.state()
    alone = []
    for d in rp["calls"]:
        e2 = Env(rp["tree"])
        alone.append(perform(e2, d))
    env = Env(rp["tree"])
    s0 = env.state()
    for d, a in zip(rp["calls"], alone):
        r = perform(env, d)
        s1 = env.state()
        if s1 != s0:
            ctx.fail("C11:" + d["op"], f"{d['op']} changed the state it was given: " + state_diff(s0, s1), rp)
            break
        if r != a:
            ctx.fail("C11:" + d["op"], f"result of {d['op']} depends on what ran before it", rp)
            break
    NL.reset_store()

"""C17 — the suggested insertion index is schema-legal and restores validity when possible.

(B) correspondence: Model/Insert.v (child_insert_index / is_allowed_child) evaluated in Coq
    on the same (rule, children, new child) cases as the implementation: every shipped rule,
    words over the rule's names plus a foreign name, every candidate name plus a foreign
    one; and random rules installed through rule.rules_dict.
(S) statement search, independent of the model: bounds, declared order, refusal, "if some
    position is valid the suggested one is" judged by a brute-force language membership
    written from the property text (and, on a sample, by the real validator), and the
    allowed-child query against "occurs in some valid sequence"."""
import itertools

from harness import common
from harness import rulelib as RL
from harness.c10 import parse_children, spec_names
from harness.common import cstr, clist, cbool

FOREIGN = "zzForeign"


def fresh(s):
    """a NEW str object equal to s (never an interned/shared constant): `is` vs `==` slips must show"""
    return "".join(list(s)) if s else s
MIXED = ("textRule", "anyNameRule", "paraRule", "subscriptRule", "superscriptRule")
HEADER = ("From MP Require Import Common.Base Gen.Tables Model.Rule Model.Insert.\n")
CHILD_CODES = {"CHILD_NOT_ALLOWED", "MIN_OCCURRENCE_UNMET", "MAX_OCCURRENCE_EXCEEDED", "MIN_CHOICE_UNMET", "MAX_CHOICE_EXCEEDED"}


# ------------------------------------------------------------------ brute-force language membership (property text)
def ends(sp, w, i, mixed):
    """set of j such that w[i:j] is a word of sp (strict reading: an occurrence of a choice
    is a non-empty match of one alternative; mixed content waives the minimum of choices)"""
    if sp[0] == "el":
        _, n, lo, hi = sp
        run = 0
        while i + run < len(w) and w[i + run] == n:
            run += 1
        top = run if hi is None else min(run, hi)
        return {i + k for k in range(lo, top + 1)}
    if sp[0] == "seq":
        cur = {i}
        for it in sp[1]:
            nxt = set()
            for p in cur:
                nxt |= ends(it, w, p, mixed)
            cur = nxt
            if not cur:
                break
        return cur
    _, alts, lo, hi = sp
    lo_eff = 0 if mixed else lo
    out = set()
    frontier = {i}
    count = 0
    seen_states = set()
    while True:
        if count >= lo_eff and (hi is None or count <= hi):
            out |= frontier
        if hi is not None and count >= hi:
            break
        nxt = set()
        for p in frontier:
            for a in alts:
                for j in ends(a, w, p, mixed):
                    if j > p:
                        nxt.add(j)
        count += 1
        if not nxt or count > len(w) - i:
            break
        key = (frozenset(nxt), count)
        if key in seen_states:
            break
        seen_states.add(key)
        frontier = nxt
    return out


def in_lang(sp, w, mixed):
    if sp is None:
        return len(w) == 0
    return len(w) in ends(sp, list(w), 0, mixed)


# ---- a word containing a given name (candidate only; judged by in_lang)
def min_word(sp, mixed):
    if sp[0] == "el":
        return [sp[1]] * sp[2]
    if sp[0] == "seq":
        return [c for it in sp[1] for c in min_word(it, mixed)]
    _, alts, lo, hi = sp
    if mixed or lo == 0:
        return []
    best = None
    for a in alts:
        w = word_nonempty(a, mixed)
        if w is not None and (best is None or len(w) < len(best)):
            best = w
    return (best or []) * lo


def word_nonempty(sp, mixed):
    ns = spec_names(sp)
    return word_with(sp, ns[0], mixed) if ns else None


def word_with(sp, x, mixed):
    if sp[0] == "el":
        return [sp[1]] * (max(sp[2], 1) if sp[1] == x else sp[2])
    if sp[0] == "seq":
        out, done = [], False
        for it in sp[1]:
            if not done and x in spec_names(it):
                out += word_with(it, x, mixed)
                done = True
            else:
                out += min_word(it, mixed)
        return out
    _, alts, lo, hi = sp
    for a in alts:
        if x in spec_names(a):
            return word_with(a, x, mixed) * max(lo, 1)
    return min_word(sp, mixed)


# ---- side conditions, from the property/DESIGN text
def py_iter_ok(sp):
    if sp[0] == "el":
        return True
    if sp[0] == "seq":
        return all(py_iter_ok(i) for i in sp[1])
    _, alts, lo, hi = sp
    if hi == 1:
        return all(py_iter_ok(a) for a in alts)
    if hi is None:
        return all(a[0] == "el" and a[2] <= 1 for a in alts)
    return False


def py_insert_ok(sp):
    if sp is None:
        return True
    ns = spec_names(sp)
    return len(set(ns)) == len(ns) and py_iter_ok(sp)


# ------------------------------------------------------------------ implementation side
def impl_queries(rname, alphabet, words, cands):
    """Returns (codes for every (word, cand) in product order, allowed answers per cand)."""
    from metapype.eml import rule as R
    from metapype.eml.exceptions import ChildNotAllowedError
    from metapype.model.node import Node
    try:
        r = R.Rule(rname)
    except Exception:  # noqa
        return [-3] * (len(words) * len(cands)), [None] * len(cands)
    codes = []
    news = [Node(fresh(alphabet[x])) for x in cands]
    for w in words:
        parent = Node("parent")
        for c in w:
            parent.add_child(Node(fresh(alphabet[c])))
        for new in news:
            try:
                k = r.child_insert_index(parent, new)
                codes.append(k if isinstance(k, int) and not isinstance(k, bool) and k >= 0 else -8)
            except ChildNotAllowedError:
                codes.append(-1)
            except ValueError:
                codes.append(-2)
            except Exception:  # noqa
                codes.append(-9)
    allowed = []
    for x in cands:
        try:
            a = r.is_allowed_child(fresh(alphabet[x]))
            allowed.append(a if isinstance(a, bool) else None)
        except Exception:  # noqa
            allowed.append(None)
    Node.store.clear()
    return codes, allowed


def impl_queries_history(ctx, rname, alphabet, words, cands):
    """The same queries through ONE long-lived Rule object that has just validated the SAME parent
    node (both modes) while it still had different children; the parent is then edited in place
    (add_child / remove_child) to the children of the case. Returns (codes, histories)."""
    from metapype.eml import rule as R
    from metapype.eml.exceptions import ChildNotAllowedError
    from metapype.model.node import Node
    try:
        r = R.Rule(rname)
    except Exception:  # noqa
        return [-3] * (len(words) * len(cands)), [None] * len(words)
    codes, hists = [], []
    news = [Node(fresh(alphabet[x])) for x in cands]
    for w in words:
        parent = Node("parent")
        kids = [Node(fresh(alphabet[c])) for c in w]
        variant = ctx.rng.choice(["validated with one more child, then remove_child",
                                  "validated with one child less, then add_child",
                                  "validated with the same children"]) if w else "validated with one more child, then remove_child"
        extra = None
        if variant.startswith("validated with one more"):
            extra = Node(fresh(alphabet[ctx.rng.randrange(len(alphabet))]))
            pos = ctx.rng.randint(0, len(kids))
            for k in kids[:pos] + [extra] + kids[pos:]:
                parent.add_child(k)
        elif variant.startswith("validated with one child less"):
            for k in kids[:-1]:
                parent.add_child(k)
        else:
            for k in kids:
                parent.add_child(k)
        before = [c.name for c in parent.children]
        for errs in (None, []):
            try:
                r.validate_rule(parent, errs)
            except Exception:  # noqa
                pass
        if extra is not None:
            parent.remove_child(extra)
        elif variant.startswith("validated with one child less"):
            parent.add_child(kids[-1])
        assert [c.name for c in parent.children] == [alphabet[c] for c in w]
        hists.append(f"r = Rule({rname!r}); r.validate_rule(parent) and r.validate_rule(parent, errs) with children {before}; "
                     f"parent edited in place ({variant}); then r.child_insert_index(parent, new) on the same r and parent")
        for new in news:
            try:
                k = r.child_insert_index(parent, new)
                codes.append(k if isinstance(k, int) and not isinstance(k, bool) and k >= 0 else -8)
            except ChildNotAllowedError:
                codes.append(-1)
            except ValueError:
                codes.append(-2)
            except Exception:  # noqa
                codes.append(-9)
    Node.store.clear()
    return codes, hists



def validator_accepts_children(rname, rj, kids):
    content = RL.canonical_content(rj)
    ff, codes = RL.impl_named_rule(rname, "x", content, [], kids)
    return not (set(codes) & CHILD_CODES) and not any(c.startswith("CRASH") for c in codes)


# ------------------------------------------------------------------ case generation
def all_words(n, maxlen):
    for L in range(maxlen + 1):
        yield from itertools.product(range(n), repeat=L)


def choose_words(ctx, n_alpha, maxlen, budget):
    total = sum(n_alpha ** L for L in range(maxlen + 1))
    if total * n_alpha <= budget:
        return [list(w) for w in all_words(n_alpha, maxlen)], True
    words = [list(w) for w in all_words(n_alpha, 1)]
    want = max(budget // n_alpha, len(words) + 10)
    seen = {tuple(w) for w in words}
    tries = 0
    while len(words) < want and tries < want * 20:
        tries += 1
        L = ctx.rng.randint(2, maxlen)
        # bias towards names in declared order (valid-looking sequences) half of the time
        w = [ctx.rng.randrange(n_alpha) for _ in range(L)]
        if ctx.rng.random() < 0.5:
            w.sort()
        if tuple(w) not in seen:
            seen.add(tuple(w))
            words.append(w)
    return words, False


def coq_icase(rule_term, alphabet, words, cands):
    return ("{| ic_rule := " + rule_term + "; ic_alpha := " + clist(cstr(a) for a in alphabet) +
            "; ic_words := " + clist(clist(str(i) + "%nat" for i in w) for w in words) +
            "; ic_cands := " + clist(str(i) + "%nat" for i in cands) + " |}")


def coq_iout(codes, allowed):
    return ("(" + clist(f"({c})%Z" for c in codes) + ", " +
            clist("None" if a is None else f"Some {cbool(a)}" for a in allowed) + ")")


def random_spec(ctx, ok):
    """children JSON of a random rule. ok=True: satisfies insert_ok; ok=False: unconstrained
    shapes (bounded repeatable choices, nested alternatives, repeated names)."""
    names = list("abcde")
    ctx.rng.shuffle(names)
    pool = names[:ctx.rng.randint(2, 4)]
    fresh = iter(pool)

    def nm():
        if ok:
            return next(fresh, None)
        return ctx.rng.choice(pool)

    def bounds(max_lo=2):
        lo = ctx.rng.choice([0, 1, 1, max_lo])
        hi = ctx.rng.choice([None, None, 1, 2, 3])
        if hi is not None and hi < lo:
            hi = lo
        if hi == 0:
            hi = 1
        return lo, hi

    def el(max_lo=2):
        n = nm()
        if n is None:
            return None
        lo, hi = bounds(max_lo)
        return [n, lo, hi]

    def cho(depth):
        iterating = ctx.rng.random() < 0.6
        k = ctx.rng.randint(1, 3)
        alts = []
        for _ in range(k):
            if ok and iterating:
                a = el(1)
            else:
                a = el() if depth >= 2 or ctx.rng.random() < 0.6 else seq(depth + 1, inner=True)
            if a is not None:
                alts.append(a)
        if not alts:
            return None
        lo = ctx.rng.choice([0, 1, 1, 2])
        if ok:
            hi = None if iterating else 1
            if hi == 1:
                lo = min(lo, 1)
        else:
            hi = ctx.rng.choice([None, 1, 2, 3])
            if hi is not None and hi < lo:
                hi = lo
        return alts + [lo, hi]

    def seq(depth, inner=False):
        k = ctx.rng.randint(1, 3)
        items = []
        for _ in range(k):
            it = el() if depth >= 2 or ctx.rng.random() < 0.55 else cho(depth + 1)
            if it is not None:
                items.append(it)
        return items or None

    for _ in range(50):
        top = seq(0) if ctx.rng.random() < 0.75 else cho(0)
        if top:
            return top
    return [["a", 0, None]]


# ------------------------------------------------------------------ directed child sequences
def _cap(ws, n=40):
    out, seen = [], set()
    for w in ws:
        if tuple(w) not in seen:
            seen.add(tuple(w))
            out.append(w)
        if len(out) >= n:
            break
    return out


def variants(sp, mixed):
    """a bounded set of words meant to be valid for sp, richer than the shortest one: optional items
    present, repeats, and — for a repeatable choice — its names interleaved NON-contiguously"""
    if sp[0] == "el":
        _, n, lo, hi = sp
        ks = [lo, max(lo, 1), max(lo, 1) + 1, max(lo, 1) + 2]
        return _cap([[n] * k for k in ks if hi is None or k <= hi])
    if sp[0] == "seq":
        items = sp[1]
        mins = [min_word(i, mixed) for i in items]
        vs = [variants(i, mixed) for i in items]
        out = [[c for m in mins for c in m]]
        for j in range(len(items)):
            for v in vs[j]:
                out.append([c for k, m in enumerate(mins) for c in (v if k == j else m)])
        # a rich item together with one later item made non-empty
        for j in range(len(items)):
            for v in vs[j][-5:]:
                for k in range(j + 1, len(items)):
                    for u in [x for x in vs[k] if x][:2]:
                        out.append([c for q, m in enumerate(mins) for c in (v if q == j else u if q == k else m)])
        return _cap(out, 400)
    _, alts, lo, hi = sp
    out = [] if not (mixed or lo == 0) else [[]]
    occ = [v for a in alts for v in variants(a, mixed) if v]
    if hi == 1:
        return _cap(out + occ)
    singles = [v for v in occ if len(v) == 1][:3] or occ[:3]
    pats = [[0], [0, 1], [0, 1, 0], [1, 0, 1], [0, 0, 1, 0], [0, 1, 0, 1], [0, 1, 2, 0], [0, 1, 2, 1, 0], [0, 0], [0, 0, 0]]
    for p in pats:
        if max(p) < len(singles) and len(p) >= lo and (hi is None or len(p) <= hi):
            out.append([c for i in p for c in singles[i]])
    return _cap(out + occ)


def directed_words(ctx, sp, mixed, alphabet, cap):
    """existing-children lists from valid rich words: the word itself and the word with one child
    deleted (so that re-inserting it restores validity); as alphabet index lists"""
    if sp is None:
        return []
    ix = {n: i for i, n in enumerate(alphabet)}
    base = [u for u in variants(sp, mixed) if len(u) <= 9 and in_lang(sp, u, mixed)]
    out, seen = [], set()
    for u in base:
        for w in [u] + [u[:i] + u[i + 1:] for i in range(len(u))]:
            if len(w) >= 3 and tuple(w) not in seen:
                seen.add(tuple(w))
                out.append([ix[c] for c in w])
    if len(out) > cap:
        out = [out[i] for i in sorted(ctx.rng.sample(range(len(out)), cap))]
    return out


def long_words(sp, mixed, alphabet, n=260):
    """existing-children lists with more than 256 children: a valid word in which one repeatable
    name is repeated n times, itself and with one child deleted near the front / at the end"""
    if sp is None:
        return []
    ix = {c: i for i, c in enumerate(alphabet)}
    for name in spec_names(sp):
        u = word_with(sp, name, mixed)
        if name not in u:
            continue
        j = u.index(name)
        big = u[:j] + [name] * n + u[j + 1:]
        if in_lang(sp, big, mixed):
            ws = [big, big[1:], big[:-1]]
            return [[ix[c] for c in w] for w in ws]
    return []


# ------------------------------------------------------------------ the check
def judge(ctx, rname, rj, sp, mixed, names, alphabet, words, cands, codes, allowed, insert_ok, do_validator, stats, label=None, hists=None):
    """(S) the statement itself on the implementation's answers."""
    pos = {n: i for i, n in reversed(list(enumerate(names)))}   # first occurrence
    nc = len(cands)
    for wi, w in enumerate(words):
        wn = [alphabet[c] for c in w]
        foreign_in_w = any(c not in pos for c in wn)
        for ci, x in enumerate(cands):
            xn = alphabet[x]
            k = codes[wi * nc + ci]
            sig = (label or rname, tuple(w), x) if hists is None else ("hist", label or rname, tuple(w), x)
            ctx.case(sig, len(w) >= 1)
            base = {"kind": "impl-vs-statement", "rule": rname, "children_spec": rj[1], "existing_children": wn,
                    "new_child": xn, "observed": {-1: "ChildNotAllowedError", -2: "ValueError", -3: "Rule() raised",
                                                  -8: "non-index return value", -9: "other exception"}.get(k, k)}
            if hists is not None:
                base["history"] = hists[wi]
            if xn not in pos:
                stats["refused"] += 1
                if k != -1:
                    ctx.fail(f"C17:refuse:{rname}", f"new child '{xn}' is not allowed by the rule but was not refused with ChildNotAllowedError", base)
                continue
            if foreign_in_w:
                stats["foreign-existing"] += 1
                continue        # outside the property's quantifier (children over the rule's names)
            if k < 0:
                ctx.fail(f"C17:no-index:{rname}", f"allowed new child '{xn}' over children within the rule's names gave no index", base)
                continue
            if not (0 <= k <= len(wn)):
                ctx.fail(f"C17:bounds:{rname}", f"suggested index {k} outside 0..{len(wn)}", base)
                continue
            # declared order is kept: children whose ranks never decrease stay so after the insertion
            if all(pos[a] <= pos[b] for a, b in zip(wn, wn[1:])):
                stats["ordered-input"] += 1
                res = wn[:k] + [xn] + wn[k:]
                if not all(pos[a] <= pos[b] for a, b in zip(res, res[1:])):
                    ctx.fail(f"C17:order:{rname}", f"children were in the rule's declared order, inserting '{xn}' at the suggested index {k} breaks it",
                             dict(base, declared_order=names, result=res))
                    continue
            if in_lang(sp, wn[:k] + [xn] + wn[k:], mixed):
                valid = [k]                      # the suggestion is valid: nothing more to decide
            else:
                if len(wn) <= 40:
                    positions = range(len(wn) + 1)
                else:                            # long parents: run boundaries (a valid slot, if any, exists at one)
                    positions = sorted({0, len(wn)} | {i for i in range(1, len(wn)) if wn[i] != wn[i - 1]})
                valid = [i for i in positions if in_lang(sp, wn[:i] + [xn] + wn[i:], mixed)]
            if valid:
                stats["restorable"] += 1
                if k not in valid:
                    if insert_ok:
                        ctx.fail(f"C17:restores:{rname}", f"inserting '{xn}' at {valid} makes the children valid, the suggested index {k} does not",
                                 dict(base, valid_positions=valid, judged_by="brute-force language membership"))
                    else:
                        stats["missed (spec outside insert_ok)"] += 1
                elif not in_lang(sp, wn, mixed):
                    stats["restorable from invalid"] += 1
            else:
                stats["not restorable"] += 1
            if do_validator and len(wn) <= 40 and ctx.rng.random() < do_validator:
                stats["validator-judged"] += 1
                vvalid = [i for i in range(len(wn) + 1) if validator_accepts_children(rname, rj, wn[:i] + [xn] + wn[i:])]
                lvalid = [i for i in range(len(wn) + 1) if in_lang(sp, wn[:i] + [xn] + wn[i:], mixed)]
                if vvalid != lvalid:
                    where = "shipped rule" if rname != "__v" else ("random rule, insert_ok" if insert_ok else "random rule outside insert_ok")
                    stats[f"validator and language membership differ ({where})"] += 1
                    if rname != "__v":
                        ctx.note(f"validator and brute-force language membership differ on shipped rule {rname}: children {wn} + {xn}: "
                                 f"validator-valid positions {vvalid}, language-valid positions {lvalid}")
                if vvalid and k not in vvalid and insert_ok:
                    ctx.fail(f"C17:restores-validator:{rname}", f"the validator accepts '{xn}' at {vvalid} but not at the suggested index {k}",
                             dict(base, valid_positions=vvalid, judged_by="Rule.validate_rule, child-related codes only"))
    # allowed-child query = occurs in some valid sequence
    for ci, x in enumerate(cands if hists is None else []):
        xn = alphabet[x]
        ctx.case(("allowed", label or rname, xn), True)
        a = allowed[ci]
        if xn in pos:
            cand = word_with(sp, xn, mixed)
            occurs = xn in cand and in_lang(sp, cand, mixed)
            if not occurs:
                # fall back to a bounded search
                occurs = any(xn in [names[i] for i in w] and in_lang(sp, [names[i] for i in w], mixed)
                             for w in all_words(len(names), 3 if len(names) <= 6 else 2))
            if a is not True or not occurs:
                ctx.fail(f"C17:allowed:{rname}:{xn}", f"is_allowed_child('{xn}') = {a}, occurs in a valid sequence: {occurs}",
                         {"kind": "impl-vs-statement", "rule": rname, "children_spec": rj[1], "name": xn,
                          "is_allowed_child": a, "witness_word": cand if occurs else None})
        elif a is not False:
            ctx.fail(f"C17:allowed:{rname}:{xn}", f"is_allowed_child('{xn}') = {a} for a name no valid sequence can contain",
                     {"kind": "impl-vs-statement", "rule": rname, "children_spec": rj[1], "name": xn, "is_allowed_child": a})


def hist_stateless(ctx, rname, rj, sp, mixed, names, alphabet, words, cands, codes, must_restore, stats, hmax, label=None):
    """ASSUMPTION of the theorems: child_insert_index depends only on (rule, children now, new child).
    Ask again through a long-lived Rule that validated the same parent before it was edited; the
    answers are judged by the statement and compared with the fresh-object answers."""
    nc = len(cands)
    fidx = len(alphabet) - 1
    pick = [i for i, w in enumerate(words) if fidx not in w]
    if len(pick) > hmax:
        pick = sorted(ctx.rng.sample(pick, hmax))
    hwords = [words[i] for i in pick]
    hcodes, hists = impl_queries_history(ctx, rname, alphabet, hwords, cands)
    judge(ctx, rname, rj, sp, mixed, names, alphabet, hwords, cands, hcodes, [], must_restore, 0, stats, label=label, hists=hists)
    for j, i in enumerate(pick):
        for ci in range(nc):
            a, b = hcodes[j * nc + ci], codes[i * nc + ci]
            stats["history-sensitive queries"] += 1
            if a != b:
                ctx.fail(f"C17:stateful:{rname}", "child_insert_index on a long-lived Rule that validated the parent before it was edited answers "
                         f"{a}, a fresh Rule answers {b} for the same children and new child",
                         {"kind": "impl-vs-statement", "rule": rname, "children_spec": rj[1],
                          "existing_children": [alphabet[c] for c in words[i]], "new_child": alphabet[cands[ci]],
                          "history": hists[j], "long_lived_rule": a, "fresh_rule": b,
                          "legend": "index, or -1 ChildNotAllowedError, -2 ValueError"}, concrete=False)
                return


def run(ctx):
    from metapype.eml import rule as R
    built = ctx.build(extra_targets=["theories/Model/Insert.v"])
    thorough = ctx.tier == "thorough"
    maxlen = 4 if thorough else 3
    budget = 20000 if thorough else 4000
    nrand = 2000 if thorough else 300
    vrate = 0.05
    hmax = 400 if thorough else 120
    dcap = 600 if thorough else 150
    long_left = 30 if thorough else 5
    ctx.extra["rule"] = (f"every shipped rule x words of length <= {maxlen} over the rule's names + one foreign name (all of them when "
                         f"#words x #names <= {budget}, else all of length <= 1 + a seeded sample) x every name + one foreign name as the "
                         f"new child; {nrand} random rules (half satisfying insert_ok) x all words of length <= 3 over their names; "
                         "non-trivial = distinct (rule, existing children, new child) with at least one existing child, plus one case per "
                         "(rule, name) for the allowed-child query")
    from collections import Counter
    stats = Counter()
    cases, wants, meta = [], [], []
    rules = R.rules_dict
    exhaustive = 0
    for rname, rj in rules.items():
        try:
            sp = parse_children(rj[1])
        except ValueError:
            continue        # C10's business
        names = spec_names(sp)
        alphabet = list(dict.fromkeys(names)) + [FOREIGN]
        words, full = choose_words(ctx, len(alphabet), maxlen, budget)
        exhaustive += full
        have = {tuple(w) for w in words}
        dw = [w for w in directed_words(ctx, sp, rname in MIXED, alphabet, dcap) if tuple(w) not in have]
        stats["directed words (valid rich word, one child deleted)"] += len(dw)
        words = words + dw
        if long_left > 0:
            lw = long_words(sp, rname in MIXED, alphabet)
            if lw:
                long_left -= 1
                stats["parents with more than 256 children"] += len(lw)
                words = words + lw
        cands = list(range(len(alphabet)))
        codes, allowed = impl_queries(rname, alphabet, words, cands)
        # the property quantifies over every shipped rule: a missed restoration is a violation
        # whether or not the rule satisfies the side condition of the theorem
        judge(ctx, rname, rj, sp, rname in MIXED, names, alphabet, words, cands, codes, allowed,
              True, vrate, stats)
        hist_stateless(ctx, rname, rj, sp, rname in MIXED, names, alphabet, words, cands, codes, True, stats, hmax)
        cases.append(coq_icase(f"(rule_named rules {cstr(rname)})", alphabet, words, cands))
        wants.append(coq_iout(codes, allowed))
        meta.append({"rule": rname, "alphabet": alphabet, "words": words, "codes": codes, "allowed": allowed, "children": rj[1]})
        if not py_insert_ok(sp):
            stats["shipped rule outside insert_ok"] += 1
    ctx.extra["shipped_rules_enumerated_exhaustively"] = exhaustive
    ctx.sample({"rule": "accessRule", "existing_children": ["allow"], "new_child": "deny",
                "observed": meta[0]["codes"][:6] if meta else None}, limit=1)

    # ---- random rules
    saved = R.rules_dict.get("__v")
    try:
        for k in range(nrand):
            ok = k % 2 == 0
            children = random_spec(ctx, ok)
            rj = [{}, children, {"content_rules": ["anyContent"]}]
            try:
                sp = parse_children(children)
            except ValueError:
                continue
            names = spec_names(sp)
            alphabet = list(dict.fromkeys(names)) + [FOREIGN]
            words = [list(w) for w in all_words(len(alphabet), 3)]
            if len(words) * len(alphabet) > 900:
                words = [list(w) for w in all_words(len(alphabet) - 1, 3)] + [[len(alphabet) - 1], [0, len(alphabet) - 1]]
            have = {tuple(w) for w in words}
            words = words + [w for w in directed_words(ctx, sp, False, alphabet, 60) if tuple(w) not in have]
            cands = list(range(len(alphabet)))
            R.rules_dict["__v"] = rj
            codes, allowed = impl_queries("__v", alphabet, words, cands)
            iok = py_insert_ok(sp)
            stats["random rules: insert_ok" if iok else "random rules: outside insert_ok"] += 1
            # random rules may legitimately fail the occurs-side condition: judge the allowed query only when every name can occur
            judge(ctx, "__v", rj, sp, False, names, alphabet, words, cands, codes, allowed, iok, vrate, stats, label=repr(children))
            if k % 4 == 0:
                hist_stateless(ctx, "__v", rj, sp, False, names, alphabet, words, cands, codes, iok, stats, hmax // 2, label=repr(children))
            cases.append(coq_icase(RL.coq_rule_raw(rj), alphabet, words, cands))
            wants.append(coq_iout(codes, allowed))
            meta.append({"rule": "__v", "alphabet": alphabet, "words": words, "codes": codes, "allowed": allowed, "children": children})
            if k < 2:
                ctx.sample({"random_rule_children": children, "insert_ok": iok}, limit=4)
    finally:
        if saved is None:
            R.rules_dict.pop("__v", None)
        else:
            R.rules_dict["__v"] = saved
    for k, v in stats.items():
        ctx.count(k, v)

    # ---- (B) model evaluated in Coq on the same cases
    bad, errors = RL.coq_compare(ctx, "corr", "run_icase", cases, wants, shard=12, header=HEADER, eqb="iout_eqb")
    npairs = sum(len(m["codes"]) for m in meta)
    nbadpairs = sum(len(meta[i]["codes"]) for i in bad)
    ctx.extra["traces_validated_against_impl"] = npairs - nbadpairs
    for name, out in errors:
        ctx.fail("corr:coq-error", f"case file {name} did not evaluate", {"kind": "broken-correspondence", "file": name, "output": out}, concrete=False)
    for i in bad[:3]:
        m = meta[i]
        first = None
        rc, out = common.coq_eval(f"{ctx.prop}_corr_show", HEADER + f"Eval vm_compute in fst (run_icase ({cases[i]})).\n")
        vals = common.parse_eval_values(out) if rc == 0 else []
        if len(vals) == 1:
            import re
            model_codes = [int(z) for z in re.findall(r"-?\d+", vals[0].replace("%Z", ""))]
            nc = len(m["alphabet"])
            for j, (a, b) in enumerate(zip(model_codes, m["codes"])):
                if a != b:
                    first = {"existing_children": [m["alphabet"][c] for c in m["words"][j // nc]],
                             "new_child": m["alphabet"][j % nc], "implementation": b, "model": a,
                             "legend": "index, or -1 ChildNotAllowedError, -2 ValueError, -3 Rule() raised, -8/-9 other"}
                    break
        ctx.fail(f"corr:cii:{m['rule']}", "model and implementation disagree on child_insert_index / is_allowed_child",
                 {"kind": "broken-correspondence", "theorem": "C17 (model/implementation correspondence)", "rule": m["rule"],
                  "children_spec": m["children"], "first_difference": first, "implementation_allowed": m["allowed"],
                  "alphabet": m["alphabet"]}, concrete=False)
    if not built:
        ctx.obligations_failed("statement search over all shipped rules and random rules: bounds, declared order, refusal, "
                               "restoration judged by brute-force language membership and by the validator")


def replay(ctx, data):
    """Re-run the recorded input on the implementation and print what it does now."""
    from metapype.eml import rule as R
    rep = data.get("replay", {})
    print(data.get("what"))
    if "existing_children" in rep and "new_child" in rep:
        rn = rep["rule"]
        saved = R.rules_dict.get("__v")
        if rn == "__v":
            R.rules_dict["__v"] = [{}, rep["children_spec"], {"content_rules": ["anyContent"]}]
        try:
            alphabet = list(dict.fromkeys(rep["existing_children"] + [rep["new_child"]]))
            w = [alphabet.index(c) for c in rep["existing_children"]]
            codes, _ = impl_queries(rn, alphabet, [w], [alphabet.index(rep["new_child"])])
            print(f"now: child_insert_index -> {codes[0]} (recorded: {rep.get('observed')}); valid positions recorded: {rep.get('valid_positions')}")
        finally:
            if rn == "__v":
                if saved is None:
                    R.rules_dict.pop("__v", None)
                else:
                    R.rules_dict["__v"] = saved
    run(ctx)
